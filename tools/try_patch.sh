#!/bin/bash
# usage: tools/try_patch.sh <patch.diff> <property> [extra args for sim.run]
# Applies a seeded change to /repo, runs the property's check, undoes the change.
set -u
patch="$1"; prop="$2"; shift 2
cd /repo || exit 2
if [ -n "$(git status --porcelain)" ]; then echo "/repo not clean"; exit 2; fi
git apply "$patch" 2>/dev/null || git apply -3 "$patch" || { echo "patch does not apply"; git reset -q --hard HEAD; exit 2; }
cd /verif
/venv/bin/python -m sim.run --property "$prop" --evidence /tmp/evidence_try_$prop.json "$@"
rc=$?
git -C /repo reset -q --hard HEAD
echo "check exit code: $rc"
exit $rc
