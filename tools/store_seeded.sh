#!/bin/bash
# usage: tools/store_seeded.sh <mutant dir> <Sxx> <property> "<change>" "<needs>" "<check result>" "<status>"
# Copies a verified sub-agent change into seeded/<Sxx>/ and writes its meta.json.
set -eu
d="$1"; id="$2"; prop="$3"; change="$4"; needs="$5"; result="$6"; status="$7"
mkdir -p /verif/seeded/$id
cp "$d/patch.diff" "$d/demo.py" /verif/seeded/$id/
[ -f "$d/NOTES.md" ] && cp "$d/NOTES.md" /verif/seeded/$id/
/venv/bin/python - "$id" "$prop" "$change" "$needs" "$result" "$status" <<'PY'
import json, sys
i, p, c, n, r, s = sys.argv[1:]
json.dump({"id": i, "property": p,
  "origin": "independent sub-agent (round 6), given only the property text and a scratch worktree",
  "change": c, "needs_to_manifest": n,
  "confirmed": {"suite": "30503 passed, 1 skipped with the change", "demo_with_change": "exit 1",
                "demo_without_change": "exit 0", "how": "tools/verify_mutant.sh <dir>"},
  "check_result": r, "status": s,
  "ran": "tools/try_patch.sh seeded/%s/patch.diff <property> --tier quick --no-selftest" % i},
  open("/verif/seeded/%s/meta.json" % i, "w"), indent=1)
PY
