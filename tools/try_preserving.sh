#!/bin/bash
# usage: tools/try_preserving.sh <patch.diff> [scale]  — all five quick checks must stay silent (exit 0)
patch="$1"; scale="${2:-0.5}"
cd /repo || exit 2
[ -n "$(git status --porcelain)" ] && { echo "/repo not clean"; exit 2; }
git apply "$patch" 2>/dev/null || git apply -3 "$patch" || { echo "patch does not apply"; git reset -q --hard HEAD; exit 2; }
cd /verif
for p in C12 C13 C14 C15 C20; do
  out=$(/venv/bin/python -m sim.run --property $p --tier quick --runs-scale $scale --evidence /tmp/evidence_pres_$p.json 2>&1)
  rc=$?
  echo "$p exit=$rc :: $(echo "$out" | grep "self-test W\|self-test note\|unknown-summary\|HARNESS\|^done" | tr '\n' '|' | cut -c1-500)"
done
git -C /repo reset -q --hard HEAD
