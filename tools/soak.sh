#!/bin/bash
# usage: tools/soak.sh "<seeds>" "<props>" [tier]   — clean-tree soak; prints one line per run
tier="${3:-quick}"
for seed in $1; do for p in $2; do
  out=$(/venv/bin/python -m sim.run --property $p --tier $tier --no-selftest --seed $seed --evidence /tmp/soak_evidence_$p.json 2>&1 | grep "unknown-summary\|^done\|HARNESS\|VIOLATION")
  echo "seed=$seed $p :: $(echo "$out" | tr '\n' '|' | cut -c1-600)"
done; done
