#!/bin/bash
# usage: tools/verify_mutant.sh <mutant dir with patch.diff and demo.py>
# Confirms in a scratch worktree: patch applies, suite passes, demo exits 1 with the
# change and 0 without it.  Removes the worktree afterwards.
set -u
d="$1"
wt=/tmp/wt_verify_$$
git -C /repo worktree add -q --detach "$wt" HEAD || exit 2
(cd "$wt" && MREPO="$wt" timeout 300 /venv/bin/python "$d/demo.py" >/dev/null 2>&1; echo "demo on clean tree: exit $?")
(cd "$wt" && git apply "$d/patch.diff") || { echo "patch does not apply"; git -C /repo worktree remove --force "$wt"; exit 2; }
(cd "$wt" && MREPO="$wt" timeout 300 /venv/bin/python "$d/demo.py" >/dev/null 2>&1; echo "demo with change: exit $?")
(cd "$wt" && timeout 1200 /venv/bin/python -m pytest -q -p no:cacheprovider -n 12 2>&1 | tail -1)
git -C /repo worktree remove --force "$wt"
