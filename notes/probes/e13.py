import sys
src = open('sim2.py').read().split("class Abort")[0]
exec(src)
for lazy in (False, True):
    for first in (None, 'from_dict', 'to_dict'):
        m = make(lazy)
        if first: outcome(m, OPS[first])
        print(lazy, first, outcome(m, OPS['to_jsonb'])[1][:200])
