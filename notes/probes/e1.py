import sys
sys.path.insert(0, '/repo')
from dataclasses import dataclass
from datetime import date
from mashumaro import DataClassDictMixin
from mashumaro.config import BaseConfig, ADD_DIALECT_SUPPORT
from mashumaro.dialect import Dialect

class D1(Dialect):
    serialization_strategy = {date: {"serialize": lambda d: d.strftime("%Y/%m/%d"), "deserialize": lambda s: date(*map(int, s.split("/")))}}

@dataclass
class A(DataClassDictMixin):
    x: date
    class Config(BaseConfig):
        lazy_compilation = True
        code_generation_options = [ADD_DIALECT_SUPPORT]

a = A(date(2020,1,2))
for name, f in [("to_dict dialect first", lambda: a.to_dict(dialect=D1)), ("from_dict dialect", lambda: A.from_dict({"x": "2020/01/02"}, dialect=D1)), ("to_dict plain", lambda: a.to_dict()), ("to_dict dialect after plain", lambda: a.to_dict(dialect=D1)),("from_dict plain", lambda: A.from_dict({"x": "2020-01-02"})),("from_dict dialect after", lambda: A.from_dict({"x": "2020/01/02"}, dialect=D1)),]:
    try:
        print(name, '->', f())
    except BaseException as e:
        print(name, '-> EXC', type(e).__name__, str(e)[:100])
