import sys, os
sys.path.insert(0, os.environ.get('MREPO','/repo'))
from dataclasses import dataclass
from typing import Annotated, List, Union
from mashumaro import DataClassDictMixin
from mashumaro.config import BaseConfig, ADD_DIALECT_SUPPORT
from mashumaro.types import Discriminator
from mashumaro.codecs.basic import BasicDecoder
from mashumaro.dialect import Dialect

def T(name, f):
    try:
        r = f(); print(name, '->', r)
    except BaseException as e:
        print(name, '-> EXC', type(e).__name__, str(e)[:120])

print("== Config-level, mixin")
@dataclass
class Base(DataClassDictMixin):
    class Config(BaseConfig):
        discriminator = Discriminator(field="type", include_subtypes=True)
@dataclass
class A(Base):
    type = "a"
    x: int = 0
T("a", lambda: Base.from_dict({"type": "a", "x": 1}))
T("b before def", lambda: Base.from_dict({"type": "b", "x": 1}))
@dataclass
class B(Base):
    type = "b"
    x: int = 0
T("b after def", lambda: Base.from_dict({"type": "b", "x": 1}))
@dataclass
class Mid(Base):
    y: int = 5
@dataclass
class C(Mid):
    type = "c"
T("c (grandchild)", lambda: Base.from_dict({"type": "c"}))
T("c via Mid", lambda: Mid.from_dict({"type": "c"}))
T("c via A", lambda: A.from_dict({"type": "c"}))
T("missing", lambda: Base.from_dict({"x": 1}))

print("== Annotated, holder defined before subclasses")
@dataclass
class E(DataClassDictMixin):
    pass
@dataclass
class Holder(DataClassDictMixin):
    e: Annotated[E, Discriminator(field="t", include_subtypes=True)]
    es: List[Annotated[E, Discriminator(field="t", include_subtypes=True, include_supertypes=True)]]
T("unknown e1", lambda: Holder.from_dict({"e": {"t": "e1"}, "es": []}))
@dataclass
class E1(E):
    t = "e1"
T("e1", lambda: Holder.from_dict({"e": {"t": "e1"}, "es": [{"t": "e1"}]}))
@dataclass
class E2(E1):
    t = "e2"
    z: int = 3
T("e2", lambda: Holder.from_dict({"e": {"t": "e2"}, "es": [{"t": "e2"}, {"t": "e1"}]}))

print("== codec, plain dataclasses")
@dataclass
class P:
    pass
dec = BasicDecoder(Annotated[P, Discriminator(field="t", include_subtypes=True)])
T("p1 before", lambda: dec.decode({"t": "p1"}))
@dataclass
class P1(P):
    t = "p1"
    q: int = 1
T("p1 after", lambda: dec.decode({"t": "p1", "q": 2}))
dec2 = BasicDecoder(List[Annotated[P, Discriminator(field="t", include_subtypes=True)]])
@dataclass
class P2(P1):
    t = "p2"
T("p2 dec2", lambda: dec2.decode([{"t": "p2"}, {"t": "p1"}]))
T("p2 dec", lambda: dec.decode({"t": "p2"}))
print("== same tag redefined (shadow)")
@dataclass
class P1b(P):
    t = "p1"
    r: int = 9
T("p1 after shadow (dec: cached)", lambda: dec.decode({"t": "p1"}))
dec3 = BasicDecoder(Annotated[P, Discriminator(field="t", include_subtypes=True)])
T("p1 after shadow (dec3: fresh)", lambda: dec3.decode({"t": "p1"}))
