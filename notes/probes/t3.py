import sys, time, threading
mon = sys.monitoring
TOOL = 3
mon.use_tool_id(TOOL, "sim")
cnt = [0]
def cb(code, off):
    cnt[0]+=1
mon.register_callback(TOOL, mon.events.INSTRUCTION, cb)
src = "def g(d):\n    x = d.get('a')\n    if x is None:\n        d['a'] = 1\n    return d['a']\n"
ns = {}
exec(compile(src, '<string>', 'exec'), ns)
g = ns['g']
mon.set_local_events(TOOL, g.__code__, mon.events.INSTRUCTION)
g({})
print('instr events', cnt[0])
# does it fire in other threads?
cnt[0]=0
t = threading.Thread(target=lambda: g({})); t.start(); t.join()
print('in thread', cnt[0])
