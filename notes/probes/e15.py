import sys, os
sys.path.insert(0, os.environ.get('MREPO','/repo'))
from dataclasses import dataclass
from typing import Annotated, List, Union
from mashumaro import DataClassDictMixin
from mashumaro.types import Discriminator
from mashumaro.codecs.basic import BasicDecoder
def T(name, f):
    try:
        r = f(); print(name, '->', r)
    except BaseException as e:
        print(name, '-> EXC', type(e).__name__, str(e)[:120])
@dataclass
class P:
    a: int
@dataclass
class PC(P):
    b: int = 7
@dataclass
class PD(P):
    c: str = "c"
@dataclass
class H(DataClassDictMixin):
    p: Annotated[P, Discriminator(include_subtypes=True, include_supertypes=True)]
T("nofield nailed plain: expect PC(a=1,b=2)", lambda: H.from_dict({"p": {"a": 1, "b": 2}}))
dec = BasicDecoder(Annotated[P, Discriminator(include_subtypes=True, include_supertypes=True)])
T("nofield codec plain", lambda: dec.decode({"a": 1, "b": 2}))
# field mode plain nailed
@dataclass
class Q:
    a: int
@dataclass
class QC(Q):
    t = "qc"
    b: int = 7
@dataclass
class H2(DataClassDictMixin):
    q: Annotated[Q, Discriminator(field="t", include_subtypes=True)]
    q0: Q = None
T("field nailed plain", lambda: H2.from_dict({"q": {"t": "qc", "a": 1, "b": 2}}))
# mixin hierarchy no field
@dataclass
class M(DataClassDictMixin):
    a: int
@dataclass
class MC(M):
    b: int = 7
@dataclass
class H3(DataClassDictMixin):
    m: Annotated[M, Discriminator(include_subtypes=True, include_supertypes=True)]
T("nofield mixin", lambda: H3.from_dict({"m": {"a": 1, "b": 2}}))
