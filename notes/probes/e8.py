import sys, os
sys.path.insert(0, os.environ.get('MREPO','/repo'))
from dataclasses import dataclass
from datetime import date
from typing import Annotated, List, Union
from mashumaro import DataClassDictMixin
from mashumaro.config import BaseConfig, ADD_DIALECT_SUPPORT
from mashumaro.types import Discriminator
from mashumaro.codecs.basic import BasicDecoder
from mashumaro.dialect import Dialect

class D1(Dialect):
    serialization_strategy = {date: {"serialize": lambda d: d.strftime("%Y/%m/%d"), "deserialize": lambda s: date(*map(int, s.split("/")))}}

def T(name, f):
    try:
        r = f(); print(name, '->', r)
    except BaseException as e:
        print(name, '-> EXC', type(e).__name__, str(e)[:120])

for lazy in (False, True):
    print("== Config-level, mixin, dialect support, lazy=", lazy)
    @dataclass
    class Base(DataClassDictMixin):
        class Config(BaseConfig):
            discriminator = Discriminator(field="type", include_subtypes=True)
            code_generation_options = [ADD_DIALECT_SUPPORT]
            lazy_compilation = lazy
    @dataclass
    class A(Base):
        type = "a"
        x: date = date(2000,1,1)
    T("a D1", lambda: Base.from_dict({"type": "a", "x": "2020/01/02"}, dialect=D1))
    T("a none", lambda: Base.from_dict({"type": "a", "x": "2020-01-02"}))
    T("b before def D1", lambda: Base.from_dict({"type": "b", "x": "2020/01/02"}, dialect=D1))
    @dataclass
    class B(Base):
        type = "b"
        x: date = date(2000,1,1)
    T("b after def D1", lambda: Base.from_dict({"type": "b", "x": "2020/01/02"}, dialect=D1))
    T("b after def none", lambda: Base.from_dict({"type": "b", "x": "2020-01-02"}))
    @dataclass
    class Holder(DataClassDictMixin):
        bs: List[Base]
        class Config(BaseConfig):
            code_generation_options = [ADD_DIALECT_SUPPORT]
            lazy_compilation = lazy
    @dataclass
    class C(B):
        type = "c"
    T("holder D1", lambda: Holder.from_dict({"bs": [{"type": "c", "x": "2020/01/02"}, {"type": "a", "x": "2020/01/03"}]}, dialect=D1))
    T("holder none", lambda: Holder.from_dict({"bs": [{"type": "c", "x": "2020-01-02"}, {"type": "a", "x": "2020-01-03"}]}))
