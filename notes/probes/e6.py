import sys
sys.argv=['x']
exec(open('e3.py').read().split("keys = list(")[0])
import traceback
m = make(True)
v = value(m)
try:
    print(v.leaf.to_jsonb(dialect=m.D1))
except Exception:
    tb = traceback.format_exc().splitlines()
    print("\n".join(tb[-25:]))
