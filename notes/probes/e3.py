import sys, itertools, random, traceback
sys.path.insert(0, __import__('os').environ.get('MREPO','/repo'))
sys.setrecursionlimit(1000)
SRC = '''
from __future__ import annotations
from dataclasses import dataclass, field
from datetime import date
from typing import Optional, List, Dict, Generic, TypeVar
from mashumaro import DataClassDictMixin
from mashumaro.config import BaseConfig, ADD_DIALECT_SUPPORT
from mashumaro.dialect import Dialect
from mashumaro.mixins.orjson import DataClassORJSONMixin
from mashumaro.mixins.msgpack import DataClassMessagePackMixin
from mashumaro.mixins.yaml import DataClassYAMLMixin

class D1(Dialect):
    serialization_strategy = {date: {"serialize": lambda d: d.strftime("%Y/%m/%d"), "deserialize": lambda s: date(*map(int, s.split("/")))}}
class D2(Dialect):
    serialization_strategy = {date: {"serialize": date.toordinal, "deserialize": date.fromordinal}}
    omit_none = True
T = TypeVar("T")

class Base(DataClassORJSONMixin, DataClassMessagePackMixin, DataClassYAMLMixin):
    class Config(BaseConfig):
        lazy_compilation = LAZY
        code_generation_options = [ADD_DIALECT_SUPPORT]

@dataclass
class Plain:
    d: date
    o: Optional[int] = None

@dataclass
class Leaf(Base):
    d: date
    o: Optional[int] = None

@dataclass
class G(Base, Generic[T]):
    v: T
    vs: List[T] = field(default_factory=list)

@dataclass
class Outer(Base):
    leaf: Leaf
    plain: Plain
    g: G[date]
    gl: G[Leaf]
    m: Dict[str, Leaf] = field(default_factory=dict)
    nxt: Optional[Outer] = None
'''
from datetime import date
def make(lazy):
    ns = {'__name__': 'fam_%s' % lazy}
    import types
    mod = types.ModuleType(ns['__name__']); sys.modules[ns['__name__']] = mod
    mod.__dict__['LAZY'] = lazy
    exec(compile(SRC, ns['__name__'], 'exec'), mod.__dict__)
    return mod

def value(m):
    lf = m.Leaf(date(2020,1,2), None)
    return m.Outer(lf, m.Plain(date(2019,3,4), 5), m.G(date(2018,1,1), [date(2017,1,1)]), m.G(lf, [lf]), {'a': lf}, m.Outer(lf, m.Plain(date(2019,3,4)), m.G(date(2018,1,1)), m.G(lf)))

def ops(m):
    v = value(m)
    res = {}
    for cname in ['Outer', 'Leaf', 'G']:
        for dl in [None, 'D1', 'D2']:
            for meth in ['to_dict', 'to_jsonb', 'to_msgpack', 'to_yaml']:
                res[(cname, dl, meth)] = None
    return res

def run_op(m, key):
    cname, dl, meth = key
    v = value(m)
    obj = {'Outer': v, 'Leaf': v.leaf, 'G': v.g}[cname]
    kw = {} if dl is None else {'dialect': getattr(m, dl)}
    try:
        out = getattr(obj, meth)(**kw)
        # roundtrip
        back = {'to_dict': 'from_dict', 'to_jsonb': 'from_json', 'to_msgpack': 'from_msgpack', 'to_yaml': 'from_yaml'}[meth]
        try:
            r = getattr(type(obj), back)(out, **kw)
            ok = (r == obj)
        except BaseException as e:
            ok = 'EXC:' + type(e).__name__
        return ('ok', out, ok)
    except BaseException as e:
        return ('exc', type(e).__name__, str(e)[:80])

keys = list(ops(make(False)).keys())
ref_mod = make(False)
ref = {k: run_op(ref_mod, k) for k in keys}
for k, v in ref.items():
    if v[0] != 'ok' or v[2] is not True:
        print('REF odd', k, v)
bad = {}
for seed in range(30):
    rnd = random.Random(seed)
    m = make(True)
    seq = [rnd.choice(keys) for _ in range(6)]
    for k in seq:
        r = run_op(m, k)
        if r != ref[k]:
            bad.setdefault((k, repr(r[:2])[:200], repr(ref[k][:2])[:200]), []).append(seed)
for k, v in bad.items():
    print(k, len(v))
