import sys, os, random, types, itertools
sys.path.insert(0, os.environ.get('MREPO','/repo'))
SRC = '''
from dataclasses import dataclass, field
from datetime import date
from typing import Optional, List, Dict, NamedTuple
from mashumaro import DataClassDictMixin, field_options
from mashumaro.config import BaseConfig, ADD_DIALECT_SUPPORT
from mashumaro.dialect import Dialect
from mashumaro.mixins.orjson import DataClassORJSONMixin
from mashumaro.mixins.msgpack import DataClassMessagePackMixin
from mashumaro.mixins.yaml import DataClassYAMLMixin

class NT(NamedTuple):
    a: int
    b: date

class D1(Dialect):
    serialization_strategy = {date: {"serialize": lambda d: d.strftime("%Y/%m/%d"), "deserialize": lambda s: date(*map(int, s.split("/")))}}
class D2(Dialect):
    serialization_strategy = {date: {"serialize": date.toordinal, "deserialize": date.fromordinal}}
    omit_none = True
    serialize_by_alias = True
class D3(Dialect):
    namedtuple_as_dict = True
    omit_default = True
DIALECTS = {"D1": D1, "D2": D2, "D3": D3, None: None}

class Base(DataClassORJSONMixin, DataClassMessagePackMixin):
    class Config(BaseConfig):
        code_generation_options = OPTS
        dialect = DEFAULT

@dataclass
class Leaf(Base):
    d: date
    o: Optional[int] = None
    nt: NT = NT(1, date(2000,1,1))
    al: int = field(default=7, metadata=field_options(alias="AL"))

@dataclass
class Sub(Leaf):
    extra: date = date(1999,9,9)

@dataclass
class Outer(Base):
    leaf: Leaf
    sub: Sub
    m: Dict[str, Leaf] = field(default_factory=dict)
'''
from datetime import date
_n=[0]
def make(default=None, support=True):
    _n[0]+=1
    name=f'dfam_{_n[0]}'
    mod=types.ModuleType(name); sys.modules[name]=mod
    # two-phase: need dialect classes before Base: exec prelude
    pre, post = SRC.split("class Base(")
    exec(compile(pre, name, 'exec'), mod.__dict__)
    mod.OPTS = ['ADD_DIALECT_SUPPORT'] if support else []
    mod.DEFAULT = mod.DIALECTS[default]
    exec(compile("class Base(" + post, name, 'exec'), mod.__dict__)
    return mod
def values(m):
    lf = m.Leaf(date(2020,1,2)); sb = m.Sub(date(2021,2,3), 4, m.NT(5, date(2001,1,1)), 8, date(1998,8,8))
    return {'Leaf': lf, 'Sub': sb, 'Outer': m.Outer(lf, sb, {'k': lf})}
def norm(x, modname):
    return repr(x).replace(modname, 'M')
def run(m, cname, dl, meth):
    v = values(m)[cname]
    kw = {} if dl is None else {'dialect': m.DIALECTS[dl]}
    try:
        out = getattr(v, meth)(**kw)
    except BaseException as e:
        return ('exc', type(e).__name__, str(e)[:60])
    back = {'to_dict':'from_dict','to_jsonb':'from_json','to_msgpack':'from_msgpack'}[meth]
    try:
        r = getattr(type(v), back)(out, **kw)
        rt = norm(r, m.__name__) == norm(v, m.__name__)
    except BaseException as e:
        rt = 'EXC:'+type(e).__name__
    return ('ok', norm(out, m.__name__), rt)
keys = [(c,d,me) for c in ['Leaf','Sub','Outer'] for d in [None,'D1','D2','D3'] for me in ['to_dict','to_jsonb','to_msgpack']]
# reference: twin with default dialect D, call without dialect
ref = {}
for d in [None,'D1','D2','D3']:
    tw = make(default=d, support=False)
    for c in ['Leaf','Sub','Outer']:
        for me in ['to_dict','to_jsonb','to_msgpack']:
            ref[(c,d,me)] = run(tw, c, None, me)
for k,v in ref.items():
    if v[0]!='ok' or v[2] is not True: print('REF', k, v)
bad={}
for seed in range(40):
    rnd=random.Random(seed); m=make()
    for k in [rnd.choice(keys) for _ in range(8)]:
        r = run(m, *k)
        if r != ref[k]:
            bad.setdefault((k, r, ref[k]), []).append(seed)
for k,v in bad.items(): print(len(v), k[0], '\n   got', k[1], '\n   ref', k[2])
