import sys, os, types
sys.path.insert(0, os.environ.get('MREPO','/repo'))
SRC1 = '''
from __future__ import annotations
from dataclasses import dataclass, field
from typing import Optional, List
from mashumaro import DataClassDictMixin
from mashumaro.codecs.basic import BasicDecoder, BasicEncoder
from mashumaro.codecs.orjson import ORJSONDecoder, ORJSONEncoder
@dataclass
class A:
    b: B
    bs: List[B] = field(default_factory=list)
@dataclass
class AM(DataClassDictMixin):
    b: B
'''
SRC2 = '''
@dataclass
class B:
    y: int = 0
'''
def T(name, f):
    try:
        r = f(); print(name, '->', r); return r
    except BaseException as e:
        print(name, '-> EXC', type(e).__name__, str(e)[:120], '| ctx:', type(e.__context__).__name__)
mod = types.ModuleType('qfam'); sys.modules['qfam'] = mod
exec(compile(SRC1, 'qfam', 'exec'), mod.__dict__)
dec = T("mk BasicDecoder(A) before B", lambda: mod.BasicDecoder(mod.A))
enc = T("mk BasicEncoder(A) before B", lambda: mod.BasicEncoder(mod.A))
decm = T("mk BasicDecoder(AM) before B", lambda: mod.BasicDecoder(mod.AM))
dj = T("mk ORJSONDecoder(List[A]) before B", lambda: mod.ORJSONDecoder(mod.List[mod.A]))
if dec: T("dec.decode before", lambda: dec.decode({"b": {"y": 1}}))
exec(compile(SRC2, 'qfam', 'exec'), mod.__dict__)
if dec: T("dec.decode after", lambda: dec.decode({"b": {"y": 1}}))
if dec: T("dec.decode after 2", lambda: dec.decode({"b": {"y": 2}, "bs": [{"y": 3}]}))
if enc: T("enc.encode after", lambda: enc.encode(mod.A(mod.B(5))))
if decm: T("decm.decode after", lambda: decm.decode({"b": {"y": 1}}))
if dj: T("dj.decode after", lambda: dj.decode('[{"b": {"y": 1}}]'))
T("fresh dec after", lambda: mod.BasicDecoder(mod.A).decode({"b": {"y": 1}}))
print([k for k in mod.A.__dict__ if 'mashumaro' in k])
