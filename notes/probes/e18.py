import sys, os, types
sys.path.insert(0, os.environ.get('MREPO','/repo'))
SRC1 = '''
from __future__ import annotations
from dataclasses import dataclass, field
from datetime import date
from typing import Optional, List
from mashumaro import DataClassDictMixin
from mashumaro.dialect import Dialect
from mashumaro.codecs.basic import BasicDecoder, BasicEncoder
class D1(Dialect):
    serialization_strategy = {date: {"serialize": lambda d: d.strftime("%Y/%m/%d"), "deserialize": lambda s: date(*map(int, s.split("/")))}}
class D2(Dialect):
    serialization_strategy = {date: {"serialize": date.toordinal, "deserialize": date.fromordinal}}
@dataclass
class A:
    d: date
    b: Optional[B] = None
'''
SRC2 = '''
@dataclass
class B:
    y: int = 0
'''
def T(name, f):
    try:
        r = f(); print(name, '->', r); return r
    except BaseException as e:
        print(name, '-> EXC', type(e).__name__, str(e)[:120], '| ctx:', type(e.__context__).__name__)
from datetime import date
for order in ("e1 first", "e2 first", "plain first"):
    mod = types.ModuleType('rfam'); sys.modules['rfam'] = mod
    exec(compile(SRC1, 'rfam', 'exec'), mod.__dict__)
    e1 = mod.BasicEncoder(mod.A, default_dialect=mod.D1)
    e2 = mod.BasicEncoder(mod.A, default_dialect=mod.D2)
    e0 = mod.BasicEncoder(mod.A)
    exec(compile(SRC2, 'rfam', 'exec'), mod.__dict__)
    v = mod.A(date(2020,1,2))
    seq = {"e1 first": [e1, e2, e0], "e2 first": [e2, e1, e0], "plain first": [e0, e1, e2]}[order]
    names = {id(e1): 'e1(D1)', id(e2): 'e2(D2)', id(e0): 'e0'}
    for e in seq:
        T(f"{order}: {names[id(e)]}", lambda: e.encode(v))
