import sys, os, threading, random, time, hashlib, uuid
sys.path.insert(0, os.environ.get('MREPO','/repo'))
import mashumaro
PKG = os.path.dirname(mashumaro.__file__)

class Sim:
    def __init__(self, seed, switch_p=0.05, max_steps=2_000_000):
        self.rng = random.Random(seed)
        self.switch_p = switch_p
        self.threads = {}      # tid -> (thread, sem)
        self.runnable = []
        self.current = None
        self.steps = 0
        self.switches = 0
        self.log = hashlib.sha256()
        self.done_evt = threading.Semaphore(0)
        self.max_steps = max_steps
        self.results = {}
    def _tracer(self, frame, event, arg):
        fn = frame.f_code.co_filename
        if fn == '<string>' or fn.startswith(PKG):
            return self._local
        return None
    def _local(self, frame, event, arg):
        if event == 'line':
            self.steps += 1
            tid = self.current
            self.log.update(f"{tid}:{os.path.basename(frame.f_code.co_filename)}:{frame.f_lineno};".encode())
            if len(self.runnable) > 1 and self.rng.random() < self.switch_p:
                self._yield(tid)
        return self._local
    def _yield(self, tid):
        others = [t for t in self.runnable if t != tid]
        nxt = self.rng.choice(others)
        self.switches += 1
        self.current = nxt
        self.threads[nxt][1].release()
        self.threads[tid][1].acquire()
    def _finish(self, tid):
        self.runnable.remove(tid)
        if self.runnable:
            nxt = self.rng.choice(self.runnable)
            self.current = nxt
            self.threads[nxt][1].release()
        else:
            self.done_evt.release()
    def spawn(self, tid, fn):
        sem = threading.Semaphore(0)
        def body():
            sem.acquire()
            sys.settrace(self._tracer)
            try:
                try:
                    self.results[tid] = ('ok', fn())
                except BaseException as e:
                    self.results[tid] = ('exc', type(e).__name__, str(e)[:100])
            finally:
                sys.settrace(None)
                self._finish(tid)
        th = threading.Thread(target=body, daemon=True)
        self.threads[tid] = (th, sem)
        self.runnable.append(tid)
        th.start()
    def run(self):
        first = self.rng.choice(self.runnable)
        self.current = first
        self.threads[first][1].release()
        self.done_evt.acquire()
        for th, _ in self.threads.values():
            th.join()

SRC = open('e3.py').read().split("SRC = '''")[1].split("'''")[0]
import types
_n = [0]
def make(lazy):
    _n[0] += 1
    name = f'simfam_{_n[0]}'
    mod = types.ModuleType(name); sys.modules[name] = mod
    mod.__dict__['LAZY'] = lazy
    exec(compile(SRC, name, 'exec'), mod.__dict__)
    return mod
from datetime import date
def run(seed):
    cnt = [0]
    r = random.Random(seed ^ 0x5eed)
    uuid.uuid4 = lambda: uuid.UUID(int=r.getrandbits(128))
    m = make(True)
    lf = m.Leaf(date(2020,1,2), None)
    sim = Sim(seed)
    sim.spawn(0, lambda: lf.to_dict())
    sim.spawn(1, lambda: m.Leaf.from_dict({'d': '2020-01-02'}))
    sim.spawn(2, lambda: lf.to_jsonb())
    sim.spawn(3, lambda: lf.to_dict())
    sim.run()
    return sim.steps, sim.switches, sim.log.hexdigest()[:12], {k: v[:2] if v[0]=='ok' else v for k, v in sorted(sim.results.items())}
t=time.time()
for seed in range(5):
    a = run(seed); b = run(seed)
    print(seed, a[:3], a[2]==b[2], a[3])
print('time', time.time()-t)
