import sys, os, types
sys.path.insert(0, os.environ.get('MREPO','/repo'))
SRC1 = '''
from __future__ import annotations
from dataclasses import dataclass, field
from typing import Optional, List
from mashumaro import DataClassDictMixin
from mashumaro.mixins.orjson import DataClassORJSONMixin
@dataclass
class A(DataClassORJSONMixin):
    b: B
    bs: List[B] = field(default_factory=list)
@dataclass
class C(DataClassORJSONMixin):
    a: A
    n: Optional[C] = None
'''
SRC2 = '''
@dataclass
class B(DataClassORJSONMixin):
    y: int = 0
'''
def T(name, f):
    try:
        r = f(); print(name, '->', r)
    except BaseException as e:
        print(name, '-> EXC', type(e).__name__, str(e)[:120], '| ctx:', type(e.__context__).__name__)
mod = types.ModuleType('pfam'); sys.modules['pfam'] = mod
exec(compile(SRC1, 'pfam', 'exec'), mod.__dict__)
T("A.from_dict before", lambda: mod.A.from_dict({"b": {"y": 1}}))
T("C.from_dict before", lambda: mod.C.from_dict({"a": {"b": {"y": 1}}}))
T("C.from_json before", lambda: mod.C.from_json('{"a": {"b": {"y": 1}}}'))
exec(compile(SRC2, 'pfam', 'exec'), mod.__dict__)
T("C.from_dict after", lambda: mod.C.from_dict({"a": {"b": {"y": 1}}, "n": {"a": {"b": {"y": 2}}}}))
T("A.from_dict after", lambda: mod.A.from_dict({"b": {"y": 1}}))
T("C.to_jsonb after", lambda: mod.C(mod.A(mod.B(3), [mod.B(4)])).to_jsonb())
T("C.from_json after", lambda: mod.C.from_json('{"a": {"b": {"y": 1}}}'))
T("A.to_dict after", lambda: mod.A(mod.B(3), [mod.B(4)]).to_dict())
