import sys, os
sys.path.insert(0, os.environ.get('MREPO','/repo'))
from dataclasses import dataclass, field
from typing import Optional, List
from mashumaro import DataClassDictMixin
from mashumaro.config import BaseConfig
from mashumaro.jsonschema import build_json_schema, JSONSchemaBuilder
from mashumaro.jsonschema.dialects import OPEN_API_3_1
def T(name, f):
    try:
        r = f(); print(name, '->', r)
    except BaseException as e:
        print(name, '-> EXC', type(e).__name__, str(e)[:120])
@dataclass
class A:
    x: int = 1
    y: Optional[str] = None
    class Config(BaseConfig):
        omit_none = True
T("omit_none default None", lambda: build_json_schema(A).to_dict())
@dataclass
class B:
    x: int = 1
    class Config(BaseConfig):
        omit_default = True
T("omit_default", lambda: build_json_schema(B).to_dict())
@dataclass
class N:
    v: int
    nxt: Optional["N"] = None
T("self ref", lambda: build_json_schema(N).to_dict())
T("self ref all_refs", lambda: build_json_schema(N, all_refs=True).to_dict())
# histories with one builder
@dataclass
class In1:
    a: int
@dataclass
class Out1:
    i: In1
    l: List[In1]
b = JSONSchemaBuilder(OPEN_API_3_1)
T("b.build(Out1)", lambda: b.build(Out1).to_dict())
T("defs", lambda: b.get_definitions().to_dict())
def mk():
    @dataclass
    class In1:
        zzz: str
    return In1
In1b = mk()
@dataclass
class Out2:
    j: In1b
T("b.build(Out2)", lambda: b.build(Out2).to_dict())
T("defs", lambda: b.get_definitions().to_dict())
class Unsupported: pass
@dataclass
class Out3:
    i: In1
    u: Unsupported
b2 = JSONSchemaBuilder(OPEN_API_3_1)
T("b2.build(Out3) fails", lambda: b2.build(Out3).to_dict())
T("defs after failed", lambda: b2.get_definitions().to_dict())
