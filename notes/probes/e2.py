import sys
sys.path.insert(0, '/repo')
from dataclasses import dataclass, field
from datetime import date
from typing import Optional, List
from mashumaro import DataClassDictMixin
from mashumaro.config import BaseConfig, ADD_DIALECT_SUPPORT
from mashumaro.dialect import Dialect
from mashumaro.mixins.orjson import DataClassORJSONMixin
from mashumaro.mixins.msgpack import DataClassMessagePackMixin

class D1(Dialect):
    serialization_strategy = {date: {"serialize": lambda d: d.strftime("%Y/%m/%d"), "deserialize": lambda s: date(*map(int, s.split("/")))}}
class D2(Dialect):
    serialization_strategy = {date: {"serialize": date.toordinal, "deserialize": date.fromordinal}}
    omit_none = True

def T(name, f):
    try:
        print(name, '->', f())
    except BaseException as e:
        print(name, '-> EXC', type(e).__name__, str(e)[:150])

# plain nested dataclass (no mixin) inside dialect-supporting class
@dataclass
class Plain:
    d: date
    o: Optional[int] = None

@dataclass
class Outer(DataClassORJSONMixin, DataClassMessagePackMixin):
    p: Plain
    ps: List[Plain] = field(default_factory=list)
    class Config(BaseConfig):
        code_generation_options = [ADD_DIALECT_SUPPORT]

o = Outer(Plain(date(2020,1,2)), [Plain(date(2021,1,2), 3)])
T("outer D1", lambda: o.to_dict(dialect=D1))
T("outer D2", lambda: o.to_dict(dialect=D2))
T("outer none", lambda: o.to_dict())
T("outer jsonb D2", lambda: o.to_jsonb(dialect=D2))
T("outer jsonb", lambda: o.to_jsonb())
T("outer msgpack D1", lambda: o.to_msgpack(dialect=D1))
T("from D1", lambda: Outer.from_dict({'p': {'d': '2020/01/02', 'o': None}, 'ps': []}, dialect=D1))
T("from json D2", lambda: Outer.from_json('{"p": {"d": 737426}, "ps": []}', dialect=D2))
print([k for k in Plain.__dict__ if 'mashumaro' in k or 'dialect' in k])
print([k for k in Outer.__dict__ if 'mashumaro' in k or 'dialect' in k])
