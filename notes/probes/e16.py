import sys, os
sys.path.insert(0, os.environ.get('MREPO','/repo'))
from dataclasses import dataclass
from typing import Annotated, List, Union, Optional
from mashumaro import DataClassDictMixin
from mashumaro.config import BaseConfig
from mashumaro.types import Discriminator
def T(name, f):
    try:
        r = f(); print(name, '->', r)
    except BaseException as e:
        print(name, '-> EXC', type(e).__name__, str(e)[:120])
for lazy in (False, True):
  for order in ("H first", "Other first"):
    @dataclass
    class P:
        a: int
    @dataclass
    class PC(P):
        b: int = 7
    @dataclass
    class H(DataClassDictMixin):
        p: Annotated[P, Discriminator(include_subtypes=True, include_supertypes=True)]
        class Config(BaseConfig):
            lazy_compilation = lazy
    @dataclass
    class Other(DataClassDictMixin):
        p: P
        class Config(BaseConfig):
            lazy_compilation = lazy
    if order == "Other first":
        T(f"lazy={lazy} {order}: Other", lambda: Other.from_dict({"p": {"a": 1}}))
    T(f"lazy={lazy} {order}: H expect PC(a=1,b=2)", lambda: H.from_dict({"p": {"a": 1, "b": 2}}))
