import sys
sys.argv=['x']
exec(open('e3.py').read().split("keys = list(")[0])
import traceback
def T(m, k):
    r = run_op(m, k)
    print(k, r[0], r[1] if r[0]=='exc' else '', r[2] if r[0]=='ok' else '')
print("--- lazy: Outer None first")
m = make(True); T(m, ('Outer', None, 'to_dict')); T(m, ('Outer', None, 'to_dict'))
print("--- lazy: Leaf None, then Outer None")
m = make(True); T(m, ('Leaf', None, 'to_dict')); T(m, ('Outer', None, 'to_dict'))
print("--- lazy: Leaf D1 (fails), then Outer None")
m = make(True); T(m, ('Leaf', 'D1', 'to_dict')); T(m, ('Outer', None, 'to_dict')); T(m, ('Leaf', None, 'to_dict'))
print("--- lazy: Outer D1 (fails), then Outer None, Leaf None")
m = make(True); T(m, ('Outer', 'D1', 'to_dict')); T(m, ('Outer', None, 'to_dict')); T(m, ('Leaf', None, 'to_dict'))
print("--- lazy: G D1 fails then Outer None")
m = make(True); T(m, ('G', 'D1', 'to_dict')); T(m, ('Outer', None, 'to_dict'));
