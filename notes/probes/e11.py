import sys, os
sys.path.insert(0, os.environ.get('MREPO','/repo'))
from dataclasses import dataclass, field
from typing import Optional, List, Generic, TypeVar
from mashumaro import DataClassDictMixin
T_ = TypeVar("T_")
@dataclass
class G(DataClassDictMixin, Generic[T_]):
    v: T_
def mk(i):
    if i == 1:
        @dataclass
        class X(DataClassDictMixin):
            a: int = 1
    else:
        @dataclass
        class X(DataClassDictMixin):
            b: str = "s"
    return X
X1, X2 = mk(1), mk(2)
def order(first):
    @dataclass
    class H1(DataClassDictMixin):
        g: G[X1]
    @dataclass
    class H2(DataClassDictMixin):
        g: G[X2]
    return H1, H2
H1, H2 = order(1)
print(H1.from_dict({"g": {"v": {"a": 5}}}))
print(H2.from_dict({"g": {"v": {"b": "q"}}}))
print(H2(G(X2("zz"))).to_dict())
