import sys, time
sys.argv=['x']
src=open('e3.py').read().split("keys = list(")[0]
exec(src)
t=time.time()
for i in range(50): make(False)
print('eager family build ms', (time.time()-t)/50*1000)
t=time.time()
for i in range(50): make(True)
print('lazy family build ms', (time.time()-t)/50*1000)
m=make(False); v=value(m)
t=time.time()
for i in range(2000): v.to_dict()
print('to_dict us', (time.time()-t)/2000*1e6)
