import sys, time
def f(n):
    s = 0
    for i in range(n):
        s += i
    return s
cnt = {'line':0,'opcode':0}
def tr(frame, event, arg):
    if frame.f_code is f.__code__:
        frame.f_trace_opcodes = True
        return loc
def loc(frame, event, arg):
    if event in cnt: cnt[event]+=1
    return loc
t=time.time(); f(100000); base=time.time()-t
sys.settrace(tr); t=time.time(); f(100000); tt=time.time()-t; sys.settrace(None)
print(base, tt, cnt)
