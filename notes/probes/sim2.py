import sys, os, types, uuid, random, time
sys.path.insert(0, os.environ.get('MREPO','/repo'))
import mashumaro
PKG = os.path.dirname(mashumaro.__file__)
SRC = '''
from __future__ import annotations
from dataclasses import dataclass, field
from datetime import date
from typing import Optional, List, Dict, Union, Annotated
from mashumaro import DataClassDictMixin
from mashumaro.config import BaseConfig, ADD_DIALECT_SUPPORT
from mashumaro.mixins.orjson import DataClassORJSONMixin
from mashumaro.types import Discriminator
from mashumaro.dialect import Dialect
class D1(Dialect):
    serialization_strategy = {date: {"serialize": lambda d: d.strftime("%Y/%m/%d"), "deserialize": lambda s: date(*map(int, s.split("/")))}}
class Base(DataClassORJSONMixin):
    class Config(BaseConfig):
        lazy_compilation = LAZY
        code_generation_options = [ADD_DIALECT_SUPPORT] if DS else []
@dataclass
class Plain:
    d: date
@dataclass
class PlainSub(Plain):
    t = "ps"
    z: int = 0
@dataclass
class Ev(Base):
    pass
@dataclass
class Ev1(Ev):
    t = "e1"
    x: int = 0
@dataclass
class Ev2(Ev):
    t = "e2"
    d: date = date(2000,1,1)
@dataclass
class Leaf(Base):
    d: date
    u: Union[int, str, date] = 0
@dataclass
class Outer(Base):
    leaf: Leaf
    plain: Plain
    ev: Annotated[Ev, Discriminator(field="t", include_subtypes=True)]
    pv: Annotated[Plain, Discriminator(field="t", include_subtypes=True, include_supertypes=True)]
    m: Dict[str, Leaf] = field(default_factory=dict)
    nxt: Optional[Outer] = None
'''
_n=[0]
def make(lazy, ds=False):
    _n[0]+=1
    name=f'afam_{_n[0]}'
    mod=types.ModuleType(name); sys.modules[name]=mod
    mod.LAZY=lazy; mod.DS=ds
    exec(compile(SRC, name, 'exec'), mod.__dict__)
    return mod
from datetime import date
INP = {"leaf": {"d": "2020-01-02", "u": "2020-05-05"}, "plain": {"d": "2019-01-01"}, "ev": {"t": "e2", "d": "2011-01-01"}, "pv": {"t": "ps", "d": "2012-01-01", "z": 4}, "m": {"k": {"d": "2020-01-03"}}, "nxt": None}
def val(m):
    return m.Outer(m.Leaf(date(2020,1,2), date(2020,5,5)), m.Plain(date(2019,1,1)), m.Ev2(date(2011,1,1)), m.PlainSub(date(2012,1,1), 4), {"k": m.Leaf(date(2020,1,3))})
OPS = {
 'from_dict': lambda m: m.Outer.from_dict(INP),
 'to_dict': lambda m: val(m).to_dict(),
 'to_jsonb': lambda m: val(m).to_jsonb(),
 'from_json': lambda m: m.Outer.from_json('{"leaf": {"d": "2020-01-02", "u": 5}, "plain": {"d": "2019-01-01"}, "ev": {"t": "e1", "x": 3}, "pv": {"t": "ps", "d": "2012-01-01"}}'),
 'leaf_to_dict': lambda m: m.Leaf(date(2020,1,2), "s").to_dict(),
}
def outcome(m, f):
    try:
        return ('ok', repr(f(m)).replace(m.__name__, 'M'))
    except BaseException as e:
        return ('exc', type(e).__name__, str(e).replace(m.__name__, 'M')[:100])
class Abort(MemoryError): pass
class Injector:
    def __init__(self, at): self.at=at; self.n=0; self.fired=False
    def tracer(self, frame, event, arg):
        fn = frame.f_code.co_filename
        if fn == '<string>' or fn.startswith(PKG): return self.local
        return None
    def local(self, frame, event, arg):
        if event=='line':
            self.n+=1
            if self.n==self.at and not self.fired:
                self.fired=True
                self.site=(os.path.basename(frame.f_code.co_filename), frame.f_lineno, frame.f_code.co_name)
                raise Abort("injected")
        return self.local
ref_m = make(False)
REF = {k: outcome(make(False), f) for k, f in OPS.items()}
for k,v in REF.items(): print('REF', k, v[0], v[1][:100])
def count_steps(first):
    m = make(True); inj = Injector(-1)
    sys.settrace(inj.tracer)
    try: outcome(m, OPS[first])
    finally: sys.settrace(None)
    return inj.n
t=time.time()
bad = {}
total=0
for first in ['from_dict', 'to_dict', 'to_jsonb']:
    N = count_steps(first)
    print(first, 'steps', N)
    for at in range(1, N+1, 7):
        m = make(True)
        inj = Injector(at)
        sys.settrace(inj.tracer)
        try:
            o1 = outcome(m, OPS[first])
        finally:
            sys.settrace(None)
        total+=1
        if o1[0]=='ok' and o1 != REF[first]:
            bad.setdefault(('faulted-op-wrong-data', first, inj.site), []).append(at)
        for k, f in OPS.items():
            o = outcome(m, f)
            if o != REF[k]:
                bad.setdefault((first, inj.site, k, o[:2] if o[0]=='exc' else 'wrong-data'), []).append(at)
print('runs', total, 'time', time.time()-t)
for k,v in bad.items(): print(len(v), k, v[:5])
