"""Structural summary of a (minimised) failing case, used to match committed
known findings.  Nothing here influences what is executed."""
from __future__ import annotations

from . import family as F


def _values_in(op):
    if "val" in op:
        yield op["val"]


def _walk_objs(v):
    if not isinstance(v, list) or not v:
        return
    if v[0] == "o":
        yield v
        for _, x in v[2]:
            yield from _walk_objs(x)
    elif v[0] in ("l", "t"):
        for x in v[1]:
            yield from _walk_objs(x)
    elif v[0] == "m":
        for _, x in v[1]:
            yield from _walk_objs(x)
    elif v[0] == "nt":
        for x in v[2]:
            yield from _walk_objs(x)


def _types_in(t):
    yield t
    k = t[0]
    if k in ("opt", "list", "dict"):
        yield from _types_in(t[1])
    elif k in ("tuple", "union"):
        for x in t[1:]:
            yield from _types_in(x)
    elif k == "gen":
        for x in t[2]:
            yield from _types_in(x)
    elif k == "ann":
        yield from _types_in(t[1])


def failing_op(case, vio):
    op = case["ops"][vio["op_index"]]
    if op["k"] == "conc" and vio.get("sub") is not None:
        t, j = vio["sub"]
        return op["progs"][t][j], True
    return op, False


def features(case, vio):
    spec = case["spec"]
    fam = F.Fam(spec)
    feats = set()
    op, in_conc = failing_op(case, vio)
    if in_conc:
        feats.add("threads")
    if spec.get("flaky"):
        feats.add("flaky_factory")
    if spec.get("factory_dialects"):
        feats.add("factory_dialects")
    if any((d.get("date") or "").startswith("obj_") for d in spec.get("dialects", [])):
        feats.add("strategy_objects")
    if spec.get("aux"):
        feats.add("same_name_other_module")
    if any(o["k"] == "conc" for o in case["ops"]):
        feats.add("has_conc")
    if any(o.get("abort_at") or o.get("abort_gen") for o in case["ops"]):
        feats.add("abort")
    if op["k"] == "codec":
        feats.add("codec")
        if op.get("dd"):
            feats.add("codec_default_dialect")
    if op.get("dialect"):
        feats.add("call_dialect")
    if any(o.get("dialect") for o in _flat(case["ops"])):
        feats.add("history_call_dialect")
    if len(spec["chunks"]) > 1:
        feats.add("chunks")
    seen = set()
    for i, n in enumerate(fam.order):
        c = fam.classes[n]
        seen.add(n)
        cfg = c.get("cfg") or {}
        if cfg.get("lazy"):
            feats.add("lazy")
        if "ADD_DIALECT_SUPPORT" in (cfg.get("cgo") or []):
            feats.add("dialect_support")
        for o in cfg.get("cgo") or []:
            if o != "ADD_DIALECT_SUPPORT":
                feats.add("cgo:" + o)
        if cfg.get("dialect"):
            feats.add("cfg_dialect")
        if cfg.get("discriminator"):
            feats.add("cfg_discriminator")
            if cfg["discriminator"].get("tagger"):
                feats.add("tagger")
        for key in ("omit_none", "omit_default", "serialize_by_alias", "sort_keys",
                    "forbid_extra_keys", "namedtuple_as_dict", "date", "aliases",
                    "orjson_options"):
            if cfg.get(key):
                feats.add("cfg:" + key)
        if c.get("hooks"):
            feats.add("hooks")
        if c.get("tvars"):
            feats.add("generic_class")
        if c.get("base_args"):
            feats.add("generic_base")
        if c.get("kind") == "nt":
            feats.add("namedtuple")
        if fam.family_bases(n):
            feats.add("inheritance")
        for f in c.get("fields", []):
            if f.get("alias"):
                feats.add("alias")
            if f.get("ser"):
                feats.add("field_serialize")
            for t in _types_in(f["t"]):
                k = t[0]
                if k == "gen":
                    feats.add("generic_specialisation")
                    if any(x[0] == "cls" for x in t[2]):
                        feats.add("generic_of_dataclass")
                elif k == "ann":
                    feats.add("nofield_discriminator" if t[2].get("field") is None
                              else "field_discriminator")
                    if not fam.is_mixin(t[1][1]):
                        feats.add("plain_hierarchy")
                elif k == "union":
                    feats.add("union")
                elif k == "cls":
                    if t[1] == n:
                        feats.add("self_reference")
                    elif t[1] not in seen:
                        feats.add("forward_ref")
                    if t[1] in fam.classes and not fam.is_mixin(t[1]):
                        feats.add("plain_nested")
                    if t[1] in fam.classes and fam.is_mixin(t[1]):
                        feats.add("mixin_nested")
    # value-level features of the failing op
    from . import gen as G
    if "val" in op:
        decl = ["cls", op["cls"]] if op["k"] in ("call", "agree") else op.get("shape")
        if decl is not None and G.has_subclass_instance(fam, op["val"], decl):
            feats.add("subclass_instance")
    if op.get("outer_val") and G.has_subclass_instance(
            fam, op["outer_val"], ["cls", op["outer_val"][1]]):
        feats.add("subclass_instance")
    return sorted(feats)


def _direct_objs(x):
    if not isinstance(x, list) or not x:
        return
    if x[0] == "o":
        yield x
    elif x[0] in ("l", "t"):
        for y in x[1]:
            yield from _direct_objs(y)
    elif x[0] == "m":
        for _, y in x[1]:
            yield from _direct_objs(y)


def _flat(ops):
    for o in ops:
        if o["k"] == "conc":
            for p in o["progs"]:
                yield from p
        else:
            yield o


def op_summary(case, vio):
    op, in_conc = failing_op(case, vio)
    s = {"k": op["k"]}
    if op["k"] == "call":
        s["dir"] = "pack" if op["m"].startswith("to_") else "unpack"
        s["m"] = op["m"]
    elif op["k"] == "codec":
        s["dir"] = "pack" if op["dir"] == "enc" else "unpack"
        s["fmt"] = op["fmt"]
    elif op["k"] == "build":
        s["dir"] = "schema"
    s["dialect"] = bool(op.get("dialect") or op.get("dd"))
    s["first"] = vio["op_index"] == 0 or all(
        o["k"] == "define" for o in case["ops"][:vio["op_index"]])
    return s


def record(case, vio):
    got = vio.get("got") or {}
    return {
        "property": case["prop"],
        "got_type": (got.get("e") or {}).get("type") if got.get("s") == "exc" else None,
        "violation_class": vio["class"],
        "features": features(case, vio),
        "op": op_summary(case, vio),
        "site": vio.get("diff_at"),
    }


def matches(entry, rec):
    """An entry fixes a subset of keys; all listed keys must match."""
    m = entry["match"]
    if entry["property"] != rec["property"]:
        return False
    if "violation_class" in m:
        vc = m["violation_class"]
        if isinstance(vc, list):
            if rec["violation_class"] not in vc:
                return False
        elif rec["violation_class"] != vc:
            return False
    if "features_all" in m and not set(m["features_all"]) <= set(rec["features"]):
        return False
    if "features_none" in m and set(m["features_none"]) & set(rec["features"]):
        return False
    if "features_exact" in m and set(m["features_exact"]) != set(rec["features"]):
        return False
    for k, v in (m.get("op") or {}).items():
        if rec["op"].get(k) != v:
            return False
    if "site_prefix" in m and not (rec.get("site") or "").startswith(m["site_prefix"]):
        return False
    if "got_type" in m and rec.get("got_type") != m["got_type"]:
        return False
    return True
