"""Sensitivity canaries: in-memory mutants of mashumaro (never /repo) that the
check must flag; run in forked workers so the parent stays clean."""
from __future__ import annotations


def run_canaries(prop, seed, jobs):
    return {"note": "not implemented yet"}
