"""Sensitivity canaries: in-memory mutants of mashumaro (never /repo) that the
check must flag.  Each runs in a forked worker so the parent stays clean; a
canary that is not detected within its budget is a harness failure (exit 2)."""
from __future__ import annotations

from .run import HarnessFailure, run_index, run_pool


def mutant_c14():
    """the lazy/postponed stub forgets the generic type arguments (K2 reverted)"""
    from mashumaro.core.meta.code.builder import CodeBuilder
    orig = CodeBuilder.__init__

    def bad(self, cls, type_args=(), *a, **kw):
        if kw.get("allow_postponed_evaluation") is False:
            type_args = ()
        orig(self, cls, type_args, *a, **kw)

    CodeBuilder.__init__ = bad
    return {"force": {"generic": True, "lazy": "all", "threads": False, "aborts": False,
                      "n_outer": 3}, "batch": "seq"}


def mutant_c12():
    """only direct subclasses are walked when the variant registry is refilled"""
    import mashumaro.core.meta.types.unpack as U

    def direct_only(cls):
        return iter(cls.__subclasses__())

    direct_only.__name__ = "iter_all_subclasses"
    U.iter_all_subclasses = direct_only
    return {"batch": "hist"}


def mutant_c13():
    """Dialect.merge drops serialize_by_alias again (K6 reverted)"""
    from mashumaro.core.const import Sentinel
    from mashumaro.dialect import Dialect
    orig = Dialect.merge.__func__

    def bad(cls, other):
        new = orig(cls, other)
        new.serialize_by_alias = Sentinel.MISSING
        return new

    Dialect.merge = classmethod(bad)
    return {"batch": "codec", "force": {"cfg_opts": True}}


def mutant_c15():
    """the one-shot encode() goes through a differently configured path"""
    import mashumaro.codecs.basic as B
    orig = B.encode

    def bad(obj, shape_type):
        out = orig(obj, shape_type)
        if isinstance(out, dict):
            out = {k: (v.upper() if isinstance(v, str) else v) for k, v in out.items()}
        return out

    B.encode = bad
    return {"batch": "hist"}


def mutant_c20():
    """build_json_schema works on a copy of the builder's definitions"""
    import mashumaro.jsonschema.builder as JB
    Base = JB.Context

    class CopyingContext(Base):
        def __init__(self, *a, **kw):
            if "definitions" in kw:
                kw["definitions"] = dict(kw["definitions"])
            super().__init__(*a, **kw)

    JB.Context = CopyingContext
    return {"batch": "hist", "force": {"selfref": False, "schema_omit": False, "generic": False}}


MUTANTS = {"C12": mutant_c12, "C13": mutant_c13, "C14": mutant_c14, "C15": mutant_c15,
           "C20": mutant_c20}
BUDGET = {"C12": 400, "C13": 400, "C14": 300, "C15": 200, "C20": 200}


def canary_task(prop, seed, start, n):
    """apply the mutant in this (forked) process and search for a violation"""
    from . import plans
    from .run import load_findings
    from . import features
    try:
        extra = MUTANTS[prop]()
    except Exception as e:  # the in-memory patch relies on internals that may move
        return {"not_applicable": f"{type(e).__name__}: {e}"}
    profile = plans.profile_for(prop, extra.get("batch", "seq"), [])
    profile["force"].update(extra.get("force", {}))
    known = [e for e in load_findings() if e.get("status") == "open"]
    base = 9_000_000
    for i in range(start, start + n):
        r = run_index(prop, seed, base + i, profile, minimise=False)
        if r["violation"]:
            rec = r["violation"]["record"]
            if any(features.matches(e, rec) for e in known):
                continue
            return {"detected_after_runs": i + 1, "class": r["violation"]["class"]}
    return None


def run_canaries(prop, seed, jobs):
    if prop not in MUTANTS:
        return {"note": "no canary"}
    budget = BUDGET[prop]
    per = 10
    tasks = [(canary_task, (prop, seed, s, per)) for s in range(0, budget, per)]
    results, _ = run_pool(tasks, jobs, on_result=lambda r: bool(r))
    na = [r for r in results if r and r.get("not_applicable")]
    if na:
        print(f"self-test note: canary for {prop} could not be applied ({na[0]['not_applicable']})")
        return {"mutant": MUTANTS[prop].__doc__, "detected": None, "note": na[0]["not_applicable"]}
    hits = [r for r in results if r]
    if not hits:
        # reported, not fatal: the in-memory mutant hooks into library internals
        # and may simply have stopped biting after a refactoring of /repo
        print(f"self-test WARNING: sensitivity canary for {prop} ({MUTANTS[prop].__doc__}) "
              f"was not detected in {budget} runs")
        return {"mutant": MUTANTS[prop].__doc__, "detected": False, "budget_runs": budget}
    best = min(hits, key=lambda r: r["detected_after_runs"])
    return {"mutant": MUTANTS[prop].__doc__, "detected": True,
            "first_detection_run": best["detected_after_runs"], "class": best["class"],
            "budget_runs": budget}
