"""Seeded generation of family specs, values, inputs and operation histories.
Everything is drawn from the one `random.Random` handed in."""
from __future__ import annotations

from . import family as F

INTS = [0, 1, 2, 3, 7, 42]
STRS = ["a", "b", "xyz", "2021-03-04", "5"]
DATES = ["2020-01-02", "2021-03-04", "1999-12-31", "2000-01-01"]

ALL_FORMATS = ["Dict", "JSON", "ORJSON", "MsgPack", "YAML", "TOML"]


class Unbuildable(Exception):
    pass


# --------------------------------------------------------------------------
# knobs (swarm testing: every feature independently on/off per run)
# --------------------------------------------------------------------------

def gen_knobs(rng, profile=None):
    profile = profile or {}
    kn = {
        "pep563": rng.random() < 0.5,
        "lazy": rng.choice(["none", "all", "mixed", "mixed"]),
        "formats": sorted(rng.sample(ALL_FORMATS, rng.randint(1, 3))),
        "p_plain": rng.choice([0.0, 0.3, 0.6]),
        "generic": rng.random() < 0.45,
        "discr_cfg": rng.random() < 0.35,
        "discr_ann": rng.random() < 0.4,
        "nofield": rng.random() < 0.3,
        "nt": rng.random() < 0.3,
        "hooks": rng.random() < 0.3,
        "fwd": rng.random() < 0.4,
        "selfref": rng.random() < 0.3,
        "union": rng.random() < 0.4,
        "dialect_support": rng.random() < 0.5,
        "cfg_dialect": rng.random() < 0.25,
        "cfg_opts": rng.random() < 0.4,
        "sub_in_base": rng.random() < 0.3,
        "subclass_values": True,
        "shared_codec_threads": True,
        "schema_omit": True,
        "field_ser": rng.random() < 0.3,
        "orjson_opts": rng.random() < 0.3,
        "generic_base": rng.random() < 0.4,
        "aux": rng.random() < 0.25,
        "any_fields": rng.random() < 0.3,
        "bytes_fields": rng.random() < 0.3,
        "strategy_objects": rng.random() < 0.25,
        "factory_dialects": rng.random() < 0.2,
        "partial_strategies": rng.random() < 0.2,
        "flaky_factory": rng.random() < 0.15,
        "override_fields": rng.random() < 0.3,
        "inherit": rng.random() < 0.5,
        "n_outer": rng.randint(1, 3),
        "n_leaf": rng.randint(1, 2),
        "chunks": rng.choice([1, 1, 2, 3]),
        "threads": rng.random() < 0.5,
        "aborts": False,
        "codecs": rng.random() < 0.5,
        "bad_inputs": rng.random() < 0.5,
        "flags": rng.random() < 0.3,
    }
    if "Dict" not in kn["formats"] and rng.random() < 0.5:
        kn["formats"] = sorted(kn["formats"] + ["Dict"])
    # runs that avoid the feature combinations of *open* known findings explore
    # deeper; the rest re-observe them (DESIGN 5.2).  Drawn unconditionally.
    avoid_roll = rng.random()
    if profile.get("avoid_open") and avoid_roll < 0.8:
        for feat in profile["avoid_open"]:
            kn[feat] = False
    kn.update(profile.get("force", {}))
    for feat in profile.get("avoid", []):
        kn[feat] = False
    return kn


# --------------------------------------------------------------------------
# family generation
# --------------------------------------------------------------------------

class FamilyBuilder:
    def __init__(self, rng, kn):
        self.rng = rng
        self.kn = kn
        self.classes = []
        self.byname = {}
        self.n = 0
        self.dialects = []
        self.roots = {}      # hierarchy root -> list of variant names
        self.generics = []
        self.nts = []

    # -- helpers -----------------------------------------------------------
    def name(self, prefix):
        self.n += 1
        return f"{prefix}{self.n}"

    def add(self, c):
        self.classes.append(c)
        self.byname[c["name"]] = c
        return c

    def fam(self):
        return F.Fam({"chunks": [self.classes], "dialects": self.dialects})

    def scalar(self):
        r = self.rng
        x = r.random()
        if x < 0.3:
            return ["int"]
        if x < 0.5:
            return ["str"]
        if x < 0.75:
            return ["date"]
        if x < 0.85:
            return ["opt", r.choice([["int"], ["date"], ["str"]])]
        if x < 0.88 and self.kn.get("any_fields"):
            return ["any"]
        if x < 0.9 and self.kn.get("bytes_fields"):
            return ["bytes"]
        if x < 0.93 and self.kn["union"]:
            return ["union", ["int"], ["str"], ["date"]] if r.random() < 0.5 else ["union", ["date"], ["int"]]
        if self.kn["nt"] and self.nts:
            return ["nt", r.choice(self.nts)]
        return r.choice([["list", ["date"]], ["dict", ["int"]], ["list", ["int"]]])

    def scalar_value(self, t):
        return gen_value(self.rng, self.fam(), t, None)

    def pick_mixins(self, force=False):
        r = self.rng
        if not force and r.random() < self.kn["p_plain"]:
            return []
        fmts = list(self.kn["formats"])
        k = 1 if r.random() < 0.6 else min(2, len(fmts))
        ms = r.sample(fmts, k)
        if "JSON" in ms and "ORJSON" in ms:
            ms.remove("JSON")
        if "Dict" in ms and len(ms) > 1:
            ms.remove("Dict")
        return sorted(ms)

    def pick_cfg(self, mixin, role="any"):
        r, kn = self.rng, self.kn
        cfg = {}
        lazy = kn["lazy"]
        if lazy == "all" or (lazy == "mixed" and r.random() < 0.5):
            cfg["lazy"] = True
        cgo = []
        if kn["dialect_support"] and r.random() < kn.get("p_dialect_support", 0.6):
            cgo.append("ADD_DIALECT_SUPPORT")
        if kn["flags"]:
            for o in ("TO_DICT_ADD_OMIT_NONE_FLAG", "TO_DICT_ADD_BY_ALIAS_FLAG",
                      "ADD_SERIALIZATION_CONTEXT"):
                if r.random() < 0.3:
                    cgo.append(o)
        if cgo:
            cfg["cgo"] = cgo
        if kn["cfg_opts"]:
            for o in ("omit_none", "omit_default", "serialize_by_alias", "sort_keys",
                      "forbid_extra_keys", "namedtuple_as_dict"):
                if o == "omit_default" and kn.get("flaky_factory"):
                    continue  # would call the failing factory at class definition
                if r.random() < 0.15:
                    cfg[o] = True
            if r.random() < 0.1:
                cfg["date"] = r.choice(["slash", "ord"] + (
                    ["obj_slash", "obj_dot"] if kn.get("strategy_objects") else []))
        if kn.get("orjson_opts") and r.random() < 0.5:
            cfg["orjson_options"] = r.choice([["OPT_SORT_KEYS"], ["OPT_INDENT_2"],
                                              ["OPT_INDENT_2", "OPT_SORT_KEYS"]])
        if (kn["cfg_dialect"] and self.dialects and "ADD_DIALECT_SUPPORT" not in cgo
                and not kn.get("flaky_factory") and r.random() < 0.4):
            cfg["dialect"] = r.choice(self.dialects)["name"]
        if not cfg and r.random() < 0.5:
            return None
        return cfg

    def fields(self, prefix, n, defaults_only=False, start=0):
        r = self.rng
        out = []
        seen_default = defaults_only
        for i in range(n):
            t = self.scalar()
            f = {"n": f"{prefix}{start + i}", "t": t}
            if seen_default or r.random() < 0.35:
                f["d"] = self.scalar_value(t)
                seen_default = True
            if self.kn["cfg_opts"] and r.random() < self.kn.get("p_alias", 0.15):
                f["alias"] = f["n"] + "_al"
            if t == ["date"] and self.kn.get("field_ser") and r.random() < 0.3:
                f["ser"] = r.choice(["slash", "ord"])
                if "d" in f:
                    f["d"] = self.scalar_value(t)
            out.append(f)
        return out

    def hooks(self):
        if not self.kn["hooks"]:
            return []
        return sorted(h for h in F.HOOKS if self.rng.random() < 0.35)

    def has_defaults(self, cname):
        return any("d" in f for f in self.fam().all_fields(cname))

    # -- class makers -------------------------------------------------------
    def make_dialects(self):
        r = self.rng
        n = r.randint(1, 3)
        if self.kn.get("distinct_dialects"):
            n = max(n, 2)
        for i in range(n):
            d = {"name": f"D{i + 1}"}
            d["date"] = r.choice([None, "slash", "ord", "slash"])
            if self.kn.get("strategy_objects") and r.random() < 0.7:
                d["date"] = ["obj_slash", "obj_dot"][i % 2]
            if self.kn.get("partial_strategies") and r.random() < 0.5:
                d["date"] = r.choice(["de_only_slash", "ser_only_ord"])
            if self.kn.get("distinct_dialects"):
                d["date"] = ["slash", "ord", None][i % 3]
            for o in ("omit_none", "omit_default", "serialize_by_alias", "namedtuple_as_dict"):
                if r.random() < 0.25:
                    d[o] = r.random() < 0.8
            if r.random() < 0.2:
                d["no_copy"] = r.choice([["list"], ["list", "dict"], []])
            self.dialects.append(d)

    def make_nt(self):
        name = self.name("NT")
        self.add({"name": name, "kind": "nt",
                  "fields": [{"n": "p", "t": ["int"]},
                             {"n": "q", "t": ["date"], "d": ["d", "2000-01-01"]}]})
        self.nts.append(name)

    def make_leaf(self):
        name = self.name("L")
        mix = self.pick_mixins()
        c = {"name": name, "mixins": mix,
             "fields": self.fields(name.lower() + "_", self.rng.randint(1, 3))}
        if self.kn.get("flaky_factory") and self.rng.random() < 0.7:
            c["fields"].append({"n": name.lower() + "_fl", "t": ["list", ["int"]], "d": ["flaky"]})
            self.flaky = True
        if self.kn.get("union_focus"):
            # the same Union type in several classes that treat its members differently
            c["fields"].insert(0, {"n": name.lower() + "_u", "t": ["union", ["int"], ["date"]]})
        cfg = self.pick_cfg(bool(mix))
        if self.kn.get("union_focus") and self.rng.random() < 0.5:
            cfg = dict(cfg or {})
            cfg["date"] = self.rng.choice(["slash", "ord"])
        if cfg is not None:
            c["cfg"] = cfg
        h = self.hooks()
        if h:
            c["hooks"] = h
        return self.add(c)

    def make_generic(self):
        r = self.rng
        base = None
        if self.kn.get("generic_base") and r.random() < 0.7:
            # a generic base class: G(GB[T]) — type parameters are resolved
            # through the inheritance chain
            bname = self.name("GB")
            bc = {"name": bname, "mixins": self.pick_mixins(), "tvars": ["T"],
                  "fields": [{"n": bname.lower() + "_v", "t": ["tv", "T"]}]}
            self.generics.append(bname)
            self.add(bc)
            base = bname
        name = self.name("G")
        mix = self.pick_mixins() if base is None else []
        fields = [{"n": name.lower() + "_v", "t": ["tv", "T"]}]
        if r.random() < 0.6:
            fields.append({"n": name.lower() + "_vs", "t": ["list", ["tv", "T"]], "d": ["l", []]})
        if r.random() < 0.4:
            fields.append({"n": name.lower() + "_o", "t": ["opt", ["tv", "T"]], "d": ["n"]})
        c = {"name": name, "mixins": mix, "tvars": ["T"], "fields": fields}
        if base is not None:
            c["bases"] = [base]
            c["base_args"] = {base: [["tv", "T"]]}
        cfg = self.pick_cfg(bool(mix))
        if cfg is not None:
            c["cfg"] = cfg
        self.generics.append(name)
        return self.add(c)

    def make_sub(self):
        r = self.rng
        cands = [c["name"] for c in self.classes
                 if c.get("kind") != "nt" and not c.get("tvars")
                 and c["name"] not in self.roots
                 and not any(c["name"] in vs for vs in self.roots.values())]
        if not cands:
            return None
        base = r.choice(cands)
        name = self.name("S")
        c = {"name": name, "bases": [base], "mixins": [],
             "fields": self.fields(name.lower() + "_", r.randint(0, 2),
                                   defaults_only=self.has_defaults(base))}
        if self.kn.get("override_fields") and r.random() < 0.5:
            # re-declare an inherited defaulted field with another type and a
            # default_factory (legal: dataclasses keep the field's position)
            cands2 = [f for f in self.fam().all_fields(base)
                      if "d" in f and f["t"][0] in ("int", "str", "date") and not f.get("literal")]
            if cands2:
                f0 = r.choice(cands2)
                c["fields"].append({"n": f0["n"], "t": ["list", ["int"]],
                                    "d": ["l", [["i", 1], ["i", 2]]]})
        if not self.fam().is_mixin(base) and r.random() < 0.3:
            c["mixins"] = self.pick_mixins(force=True)
        if r.random() < 0.3:
            cfg = self.pick_cfg(True)
            if cfg is not None:
                c["cfg"] = cfg
        return self.add(c)

    def make_hierarchy(self):
        r, kn = self.rng, self.kn
        root = self.name("R")
        mix = self.pick_mixins()
        if kn.get("deep_variants") and r.random() < 0.6:
            mix = []
        rc = {"name": root, "mixins": mix, "fields": self.fields(root.lower() + "_", r.randint(0, 2))}
        cfg = self.pick_cfg(bool(mix)) or {}
        cfg.pop("forbid_extra_keys", None)
        style = r.choice(["cvar", "cvar", "literal"])
        tagger = None
        if kn["discr_cfg"] and mix:
            tagger = r.choice([None, None, "name", "list"])
            cfg["discriminator"] = {"field": "t", "sub": True, "sup": False, "tagger": tagger}
        if cfg:
            rc["cfg"] = cfg
        if r.random() < 0.3:
            rc.setdefault("cvars", {})["t"] = root.lower()
        self.add(rc)
        variants = []
        nvar = r.randint(2, 3)
        for i in range(nvar):
            parent = root
            if variants and (r.random() < 0.3 or (kn.get("deep_variants") and i == 1)):
                parent = r.choice(variants)
            vn = self.name("V")
            vc = {"name": vn, "bases": [parent], "mixins": [],
                  "fields": self.fields(vn.lower() + "_", r.randint(0, 2),
                                        defaults_only=(self.has_defaults(parent) or style == "literal"))}
            if style == "literal":
                vc["fields"].insert(0, {"n": "t", "t": ["str"], "literal": vn.lower(), "d": ["s", vn.lower()]})
                if not self.has_defaults(parent):
                    # literal tag has a default: every later field needs one too
                    for f in vc["fields"][1:]:
                        f.setdefault("d", self.scalar_value(f["t"]))
            elif r.random() < 0.85:
                vc["cvars"] = {"t": vn.lower()}
            h = self.hooks()
            if h:
                vc["hooks"] = h
            self.add(vc)
            variants.append(vn)
        self.roots[root] = variants
        return rc

    def ref_type(self, own):
        """a field type referencing an existing class"""
        r, kn = self.rng, self.kn
        cands = [c for c in self.classes if c.get("kind") != "nt" and c["name"] != own]
        if not cands:
            return self.scalar()
        c = r.choice(cands)
        n = c["name"]
        if c.get("tvars"):
            leafs = [x["name"] for x in self.classes
                     if not x.get("tvars") and x.get("kind") != "nt" and x["name"] != own
                     and x["name"] not in self.roots]
            arg = r.choice([["date"], ["int"], ["date"], ["opt", ["date"]]]
                           + ([["cls", r.choice(leafs)]] if leafs else []))
            auxl = [a["name"] for a in getattr(self, "aux", [])]
            if auxl and r.random() < 0.6:
                arg = ["cls", r.choice(auxl)]
            base = ["gen", n, [arg]]
        elif n in self.roots and kn["discr_ann"] and r.random() < 0.7:
            if kn["nofield"] and r.random() < 0.4:
                d = {"field": None, "sub": True, "sup": True, "tagger": None}
            else:
                d = {"field": "t", "sub": True, "sup": r.random() < 0.3,
                     "tagger": None}
            base = ["ann", ["cls", n], d]
        else:
            base = ["cls", n]
        x = r.random()
        if x < 0.45:
            return base
        if x < 0.65:
            return ["opt", base]
        if x < 0.85:
            return ["list", base]
        return ["dict", base]

    def make_outer(self):
        r, kn = self.rng, self.kn
        name = self.name("O")
        mix = self.pick_mixins(force=(r.random() < 0.8))
        fields = []
        nref = r.randint(1, 3)
        for i in range(nref):
            fields.append({"n": f"{name.lower()}_r{i}", "t": self.ref_type(name)})
        auxn = {a["name"] for a in getattr(self, "aux", [])}
        extra = []
        for f in fields:
            t = f["t"]
            inner = t[1] if t[0] in ("opt", "list", "dict") else t
            if inner[0] == "gen" and inner[2] and inner[2][0][0] == "cls" and inner[2][0][1] in auxn \
                    and r.random() < 0.7:
                extra.append({"n": f["n"] + "x", "t": ["gen", inner[1], [["acls", inner[2][0][1]]]]})
            elif inner[0] == "cls" and inner[1] in auxn and r.random() < 0.5:
                extra.append({"n": f["n"] + "x", "t": ["acls", inner[1]]})
        fields += extra
        if kn.get("deep_variants") and self.roots and not any(
                t[0] == "ann" for f in fields for t in _types_in(f["t"])):
            root = r.choice(sorted(self.roots))
            d = {"field": "t", "sub": True, "sup": r.random() < 0.3, "tagger": None}
            fields[0]["t"] = r.choice([["ann", ["cls", root], d], ["ann", ["cls", root], d],
                                       ["list", ["ann", ["cls", root], d]]])
        fields += self.fields(name.lower() + "_", r.randint(0, 2), defaults_only=False)
        # required first, defaults after
        for f in fields:
            if f["t"][0] in ("opt", "list", "dict") and f["n"].find("_r") > 0 and r.random() < 0.5:
                f["d"] = {"opt": ["n"], "list": ["l", []], "dict": ["m", []]}[f["t"][0]]
        if kn["selfref"] and r.random() < 0.6:
            fields.append({"n": name.lower() + "_self", "t": ["opt", ["cls", name]], "d": ["n"]})
        fields.sort(key=lambda f: "d" in f)
        c = {"name": name, "mixins": mix, "fields": fields}
        cfg = self.pick_cfg(bool(mix))
        if cfg is not None:
            c["cfg"] = cfg
        h = self.hooks()
        if h:
            c["hooks"] = h
        return self.add(c)

    # -- assembly -------------------------------------------------------------
    def make_aux(self):
        """a second module with classes named like leaf classes of the main one
        but with different fields"""
        r = self.rng
        leafs = [c for c in self.classes if c["name"].startswith("L")]
        self.aux = []
        for c in leafs[:2]:
            ac = {"name": c["name"], "mixins": r.choice([[], ["Dict"]]),
                  "fields": [{"n": "ax", "t": ["int"]},
                             {"n": "ay", "t": ["date"], "d": ["d", "2000-01-01"]}]}
            self.aux.append(ac)

    def build(self):
        r, kn = self.rng, self.kn
        self.aux = []
        self.make_dialects()
        if kn["nt"]:
            self.make_nt()
        for _ in range(kn["n_leaf"]):
            self.make_leaf()
        if kn.get("aux"):
            self.make_aux()
        if kn["generic"]:
            self.make_generic()
        if kn["discr_cfg"] or kn["discr_ann"]:
            self.make_hierarchy()
        if kn["inherit"]:
            self.make_sub()
        for _ in range(kn["n_outer"]):
            self.make_outer()
            if kn["inherit"] and r.random() < 0.3:
                self.make_sub()
        # make sure at least one class is reachable through a mixin method
        if not any(self.fam().is_mixin(c["name"]) for c in self.classes if c.get("kind") != "nt"):
            for c in reversed(self.classes):
                if c.get("kind") != "nt" and not c.get("bases"):
                    c["mixins"] = self.pick_mixins(force=True)
                    break
        order = list(self.classes)
        if kn["fwd"]:
            order = self.move_forward_refs(order)
        nchunks = min(kn["chunks"], len(order))
        cuts = sorted(r.sample(range(1, len(order)), nchunks - 1)) if nchunks > 1 else []
        chunks, prev = [], 0
        for cut in cuts + [len(order)]:
            chunks.append(order[prev:cut])
            prev = cut
        spec = {"pep563": kn["pep563"], "dialects": self.dialects, "chunks": chunks}
        if kn.get("factory_dialects"):
            spec["factory_dialects"] = True
        if getattr(self, "flaky", False):
            spec["flaky"] = True
        if self.aux:
            spec["aux"] = self.aux
        return spec

    def move_forward_refs(self, order):
        """Move one or two referenced classes (with their subclasses) behind one
        of their users, so that the user is compiled in 'postponed' mode."""
        r, kn = self.rng, self.kn
        fam = self.fam()
        for _ in range(r.randint(1, 2)):
            referenced = set()
            complex_pos = set()
            for c in order:
                for f in c.get("fields", []):
                    refs = fam.type_refs(f["t"])
                    referenced |= refs - {c["name"]}
                    if not self._simple_position(f["t"]):
                        complex_pos |= refs
            cands = []
            for c in order:
                n = c["name"]
                if n not in referenced or c.get("kind") == "nt":
                    continue
                group = [n] + fam.subclasses(n)
                if not kn["pep563"] and any(
                        g in complex_pos or fam.cls(g).get("tvars") for g in group):
                    continue
                cands.append(n)
            if not cands:
                break
            pick = r.choice(cands)
            group = set([pick] + fam.subclasses(pick))
            rest = [c for c in order if c["name"] not in group]
            moved = [c for c in order if c["name"] in group]
            users = [i for i, c in enumerate(rest) if fam.field_refs(c["name"]) & group]
            if not users:
                continue
            lo = users[0] + 1
            for g in group:
                for b in fam.family_bases(g):
                    for i, c in enumerate(rest):
                        if c["name"] == b:
                            lo = max(lo, i + 1)
            pos = r.randint(lo, len(rest))
            order = rest[:pos] + moved + rest[pos:]
        return order

    @staticmethod
    def _simple_position(t):
        k = t[0]
        if k in ("cls", "int", "str", "date", "nt", "tv", "acls", "bytes"):
            return True
        if k in ("opt", "list", "dict"):
            return t[1][0] in ("cls", "int", "str", "date")
        if k == "union":
            return all(x[0] in ("int", "str", "date") for x in t[1:])
        return False


def gen_family(rng, kn):
    return FamilyBuilder(rng, kn).build()


# --------------------------------------------------------------------------
# values and inputs
# --------------------------------------------------------------------------

def subst(t, tvmap):
    if not tvmap:
        return t
    k = t[0]
    if k == "tv":
        return tvmap.get(t[1], ["int"])
    if k in ("opt", "list", "dict"):
        return [k, subst(t[1], tvmap)]
    if k in ("tuple", "union"):
        return [k] + [subst(x, tvmap) for x in t[1:]]
    if k == "gen":
        return ["gen", t[1], [subst(x, tvmap) for x in t[2]]]
    if k == "ann":
        return ["ann", subst(t[1], tvmap), t[2]]
    return t


def eligible_variants(fam, root, discr, defined):
    out = []
    if discr.get("sub"):
        out += fam.subclasses(root, defined)
    if discr.get("sup"):
        out.append(root)
    return out


def gen_value(rng, fam, t, defined, depth=0, kn=None, discr=None):
    k = t[0]
    if k == "int":
        return ["i", rng.choice(INTS)]
    if k == "str":
        return ["s", rng.choice(STRS)]
    if k == "date":
        return ["d", rng.choice(DATES)]
    if k == "bytes":
        return ["b", rng.choice(["", "00ff10", "616263"])]
    if k == "any":
        return rng.choice([["i", 1], ["s", "a"], ["i", 5], ["l", [["i", 1]]]])
    if k == "opt":
        if rng.random() < 0.3 or depth > 3:
            return ["n"]
        return gen_value(rng, fam, t[1], defined, depth, kn)
    if k == "list":
        n = 0 if depth > 3 else rng.choice([0, 1, 1, 2])
        return ["l", [gen_value(rng, fam, t[1], defined, depth + 1, kn) for _ in range(n)]]
    if k == "dict":
        n = 0 if depth > 3 else rng.choice([0, 1, 1, 2])
        return ["m", [[f"k{i}", gen_value(rng, fam, t[1], defined, depth + 1, kn)] for i in range(n)]]
    if k == "tuple":
        return ["t", [gen_value(rng, fam, x, defined, depth + 1, kn) for x in t[1:]]]
    if k == "union":
        return gen_value(rng, fam, rng.choice(t[1:]), defined, depth, kn)
    if k == "nt":
        c = fam.cls(t[1])
        return ["nt", t[1], [gen_value(rng, fam, f["t"], defined, depth + 1, kn) for f in c["fields"]]]
    if k == "ann":
        return gen_value(rng, fam, t[1], defined, depth, kn, discr=t[2])
    if k == "acls":
        c = fam.aux[t[1]]
        return ["ao", t[1], [[f["n"], gen_value(rng, fam, f["t"], defined, depth + 1, kn)]
                             for f in c["fields"] if "d" not in f or rng.random() < 0.6]]
    if k in ("cls", "gen"):
        cname = t[1]
        if defined is not None and cname not in defined:
            raise Unbuildable(cname)
        tvmap = None
        if k == "gen":
            tvmap = dict(zip(fam.cls(cname).get("tvars", []), t[2]))
        concrete = cname
        if discr is not None:
            el = [v for v in eligible_variants(fam, cname, discr, defined)
                  if discr.get("field") is None or fam.tag(v, discr)]
            if el:
                concrete = rng.choice(el)
                if kn and kn.get("deep_variants") and rng.random() < 0.6:
                    concrete = max(el, key=lambda v: (len(fam.mro(v)), v))
        elif k == "cls" and kn and kn.get("sub_in_base") and rng.random() < 0.4:
            subs = fam.subclasses(cname, defined)
            if subs:
                concrete = rng.choice(subs)
        elif k == "cls" and fam.own_cfg(cname).get("discriminator") and rng.random() < 0.7:
            d = fam.own_cfg(cname)["discriminator"]
            el = [v for v in fam.subclasses(cname, defined) if fam.tag(v, d)]
            if el:
                concrete = rng.choice(el)
        fields = []
        for f in fam.all_fields(concrete):
            if f.get("literal") is not None:
                continue
            if "d" in f and f["d"][0] != "flaky" and rng.random() < 0.4:
                continue
            ft = subst(f["t"], tvmap)
            if depth > 4 and "d" in f and f["d"][0] != "flaky":
                continue
            fields.append([f["n"], gen_value(rng, fam, ft, defined, depth + 1, kn)])
        return ["o", concrete, fields]
    raise ValueError(t)


def has_subclass_instance(fam, v, t, tvmap=None):
    """does value `v`, declared as type `t`, hold an instance whose class is not
    the declared class (so that packing dispatches on the instance's class)?"""
    if not isinstance(v, list) or not v:
        return False
    t = subst(t, tvmap) if tvmap else t
    k = v[0]
    if k == "ao":
        return False
    if k == "o":
        decl = t
        while decl[0] in ("opt", "ann"):
            decl = decl[1]
        if decl[0] == "union":
            return False
        if decl[0] not in ("cls", "gen") or decl[1] != v[1]:
            return True
        tv = None
        if decl[0] == "gen":
            tv = dict(zip(fam.cls(decl[1]).get("tvars", []), decl[2]))
        fdefs = {f["n"]: f for f in fam.all_fields(v[1])}
        return any(n in fdefs and has_subclass_instance(fam, x, fdefs[n]["t"], tv)
                   for n, x in v[2])
    inner = t
    while inner[0] in ("opt", "ann"):
        inner = inner[1]
    if k in ("l",) and inner[0] == "list":
        return any(has_subclass_instance(fam, x, inner[1]) for x in v[1])
    if k == "m" and inner[0] == "dict":
        return any(has_subclass_instance(fam, x, inner[1]) for _, x in v[1])
    if k == "t" and inner[0] == "tuple":
        return any(has_subclass_instance(fam, x, tt) for x, tt in zip(v[1], inner[1:]))
    return False


def date_fmt(fam, cname, call_dialect):
    cfg = fam.cfg(cname)
    if call_dialect and fam.dialect_support(cname):
        d = fam.dialects[call_dialect].get("date")
        if d:
            return d
    if cfg.get("dialect"):
        d = fam.dialects[cfg["dialect"]].get("date")
        if d:
            return d
    if cfg.get("date"):
        return cfg["date"]
    return "iso"


def render_date(s, fmt):
    if fmt == "ser_only_ord":
        return s  # only packing is overridden: inputs stay ISO
    if fmt in ("slash", "obj_slash", "de_only_slash"):
        return s.replace("-", "/")
    if fmt == "obj_dot":
        y, m, d = s.split("-")
        return f"{d}.{m}.{y}"
    if fmt == "ord":
        import datetime
        return datetime.date.fromisoformat(s).toordinal()
    return s


def to_input(fam, v, ctx, discr=None):
    """Turn a value expr into the JSON document mashumaro's default behaviour
    would most likely accept.  Not an oracle: only used to build inputs."""
    k = v[0]
    if k in ("i", "s"):
        return v[1]
    if k == "d":
        return render_date(v[1], ctx.get("date", "iso"))
    if k == "n":
        return None
    if k == "b":
        return {"__bytes__": v[1]}
    if k in ("l", "t"):
        return [to_input(fam, x, ctx) for x in v[1]]
    if k == "m":
        return {kk: to_input(fam, x, ctx) for kk, x in v[1]}
    if k == "nt":
        return [to_input(fam, x, ctx) for x in v[2]]
    if k == "ao":
        return {n: to_input(fam, x, dict(ctx, date="iso")) for n, x in v[2]}
    if k == "o":
        cname = v[1]
        sub = dict(ctx)
        sub["date"] = date_fmt(fam, cname, ctx.get("dialect"))
        if sub["date"] == "iso" and ctx.get("force_date"):
            sub["date"] = ctx["force_date"]
        cfg = fam.cfg(cname)
        aliases = cfg.get("aliases") or {}
        fdefs = {f["n"]: f for f in fam.all_fields(cname)}
        doc = {}
        for n, x in v[2]:
            f = fdefs.get(n, {})
            key = f.get("alias") or aliases.get(n) or n
            fd = f.get("t", ["int"])
            d2 = fd[2] if fd[0] == "ann" else None
            if fd[0] in ("opt", "list", "dict") and fd[1][0] == "ann":
                d2 = fd[1][2]
            if f.get("ser") and x[0] == "d":
                doc[key] = render_date(x[1], f["ser"])
                continue
            doc[key] = _to_input_typed(fam, x, sub, d2)
        if discr is None:
            for anc in fam.mro(cname)[1:]:
                dd = fam.own_cfg(anc).get("discriminator")
                if dd:
                    discr = dd
                    break
        tags = fam.tag(cname, discr if discr and discr.get("field") else None)
        field = (discr or {}).get("field") or "t"
        if tags:
            doc[field] = tags[0] if len(tags) == 1 else tags[ctx.get("tagpick", 0) % len(tags)]
        return doc
    raise ValueError(v)


def _to_input_typed(fam, x, ctx, discr):
    if discr is None:
        return to_input(fam, x, ctx)
    k = x[0]
    if k == "o":
        return to_input(fam, x, ctx, discr)
    if k in ("l", "t"):
        return [_to_input_typed(fam, y, ctx, discr) for y in x[1]]
    if k == "m":
        return {kk: _to_input_typed(fam, y, ctx, discr) for kk, y in x[1]}
    return to_input(fam, x, ctx)


def corrupt(rng, doc):
    """F2: damage a valid input so that decoding raises a documented error."""
    import copy
    doc = copy.deepcopy(doc)
    paths = []

    def walk(node, path):
        if isinstance(node, dict):
            for k2, v2 in node.items():
                paths.append((path, k2))
                walk(v2, path + [k2])
        elif isinstance(node, list):
            for i, v2 in enumerate(node):
                paths.append((path, i))
                walk(v2, path + [i])

    walk(doc, [])
    if not paths:
        return ["not-a-dict"], "wrong-root"
    path, key = rng.choice(paths)
    node = doc
    for p in path:
        node = node[p]
    how = rng.choice(["drop", "wrongtype", "badscalar", "badtag"])
    if key == "t" and isinstance(node, dict):
        how = rng.choice(["drop", "badtag"])
    if how == "drop" and isinstance(node, dict):
        del node[key]
    elif how == "wrongtype":
        node[key] = [["x"]] if not isinstance(node[key], list) else {"zz": 1}
    elif how == "badtag" and isinstance(node, dict):
        node[key] = "no_such_tag"
    else:
        node[key] = "bad/scalar"
    return doc, how


def strip_none(doc):
    if isinstance(doc, dict):
        return {k: strip_none(v) for k, v in doc.items() if v is not None}
    if isinstance(doc, list):
        return [strip_none(v) for v in doc if v is not None]
    return doc


# --------------------------------------------------------------------------
# operations
# --------------------------------------------------------------------------

def callable_classes(fam, defined):
    return [n for n in fam.order if n in defined and fam.cls(n).get("kind") != "nt"
            and fam.is_mixin(n) and not fam.cls(n).get("tvars")]


def gen_call(rng, fam, kn, defined, cname=None, method=None, allow_bad=True):
    if cname is None:
        cname = rng.choice(callable_classes(fam, defined))
    methods = fam.methods(cname)
    if method is None:
        method = rng.choice(methods)
    op = {"k": "call", "cls": cname, "m": method}
    dialect = None
    if fam.dialect_support(cname) and fam.dialects and rng.random() < 0.6:
        dialect = rng.choice(sorted(fam.dialects))
        op["dialect"] = dialect
    cgo = fam.cgo(cname)
    kw = {}
    if method.startswith("to_"):
        if "TO_DICT_ADD_OMIT_NONE_FLAG" in cgo and rng.random() < 0.5:
            kw["omit_none"] = rng.random() < 0.7
        if "TO_DICT_ADD_BY_ALIAS_FLAG" in cgo and rng.random() < 0.5:
            kw["by_alias"] = rng.random() < 0.7
        if "ADD_SERIALIZATION_CONTEXT" in cgo and rng.random() < 0.5:
            kw["context"] = {"c": 1}
    if method in ("to_jsonb", "to_json"):
        # call-time orjson_options (S62): chosen without drawing from rng, so every
        # other generated choice of a seed is what it was before this argument existed
        import zlib
        h = zlib.crc32(("%s:%s:%d:%d" % (cname, method, len(defined), len(fam.order))).encode())
        if h % 2 == 0:
            import orjson
            kw["orjson_options"] = (orjson.OPT_SORT_KEYS, orjson.OPT_INDENT_2,
                                    orjson.OPT_SORT_KEYS | orjson.OPT_INDENT_2)[(h >> 1) % 3]
    if kw:
        op["kw"] = kw
    t = ["cls", cname]
    try:
        v = gen_value(rng, fam, t, defined, kn=kn)
    except Unbuildable:
        v = None
    if (method.startswith("to_") and v is not None and not kn.get("subclass_values", True)
            and has_subclass_instance(fam, v, t)):
        v = None  # decode instead: packing would dispatch on the instance's class
    if method.startswith("to_"):
        if v is None:
            # cannot build an instance yet (needs an undefined class): decode instead
            method = "from_" + method[3:]
            if method == "from_jsonb":
                method = "from_json"
            op["m"] = method
            op.pop("kw", None)
        else:
            op["val"] = v
            return op
    if v is None:
        v = gen_value(rng, fam, t, None, kn=kn)
    doc = to_input(fam, v, {"dialect": dialect, "tagpick": rng.randint(0, 1)},
                   discr=fam.own_cfg(cname).get("discriminator"))
    if method == "from_toml":
        doc = strip_none(doc)
    if allow_bad and kn.get("bad_inputs") and rng.random() < 0.2:
        doc, how = corrupt(rng, doc)
        op["bad"] = how
        if method == "from_toml":
            doc = strip_none(doc) if isinstance(doc, dict) else {"x": 1}
    op["inp"] = doc
    return op


CODEC_FMTS = ["basic", "json", "orjson", "yaml", "msgpack", "toml"]


def gen_shape(rng, fam, kn, defined):
    cands = [n for n in fam.order if n in defined and fam.cls(n).get("kind") != "nt"
             and not fam.cls(n).get("tvars")]
    cname = rng.choice(cands)
    base = ["cls", cname]
    roots = [n for n in cands if any(fam.tag(v) for v in fam.subclasses(n, defined))
             and not fam.own_cfg(n).get("discriminator")]
    if roots and rng.random() < 0.3:
        cname = rng.choice(roots)
        base = ["ann", ["cls", cname],
                {"field": "t", "sub": True, "sup": rng.random() < 0.3, "tagger": None}]
        if rng.random() < 0.7:
            return base
    gens = [n for n in fam.order if n in defined and fam.cls(n).get("tvars")]
    if gens and rng.random() < 0.25:
        base = ["gen", rng.choice(gens), [rng.choice([["date"], ["int"], ["cls", cname]])]]
    x = rng.random()
    if x < 0.5:
        return base
    if x < 0.65:
        return ["list", base]
    if x < 0.8:
        return ["dict", base]
    if x < 0.9:
        return ["opt", base]
    return ["tuple", base, ["int"]]


def shape_cls(shape):
    t = shape
    while t[0] in ("list", "dict", "opt", "tuple", "ann"):
        t = t[1]
    return t[1]


def gen_codec_op(rng, fam, kn, defined, codecs):
    """create-and-call a codec, or call one created earlier in the history"""
    op = None
    if codecs and rng.random() < 0.4:
        base = rng.choice(codecs)
        op = {k: base[k] for k in ("k", "id", "fmt", "dir", "shape", "dd") if k in base}
        try:
            v = gen_value(rng, fam, op["shape"], defined, kn=kn)
        except Unbuildable:
            v = None
        if (v is not None and not kn.get("subclass_values", True)
                and has_subclass_instance(fam, v, op["shape"])):
            v = None
        if v is None and op["dir"] == "enc":
            op = None
    if op is None:
        shape = gen_shape(rng, fam, kn, defined)
        try:
            v = gen_value(rng, fam, shape, defined, kn=kn)
        except Unbuildable:
            v = None
        if (v is not None and not kn.get("subclass_values", True)
                and has_subclass_instance(fam, v, shape)):
            v = None
        op = {"k": "codec", "id": len(codecs), "fmt": rng.choice(CODEC_FMTS),
              "dir": rng.choice(["enc", "dec"]) if v is not None else "dec",
              "shape": shape}
        if fam.dialects and rng.random() < 0.3:
            op["dd"] = rng.choice(sorted(fam.dialects))
        if rng.random() < 0.2:
            op["oneshot"] = True
            op.pop("dd", None)
            op.pop("id")
        else:
            codecs.append(dict(op))
    if op["dir"] == "enc":
        op["val"] = v
        return op
    if v is None:
        v = gen_value(rng, fam, op["shape"], None, kn=kn)
    doc = to_input(fam, v, {"dialect": None, "tagpick": 0})
    if kn.get("bad_inputs") and rng.random() < 0.15:
        doc, how = corrupt(rng, doc)
        op["bad"] = how
    if op["fmt"] == "toml":
        doc = strip_none(doc)
        if not isinstance(doc, dict):
            doc = {"x": doc}
    op["inp"] = doc
    return op


def gen_schedule(rng, est_steps=20000):
    x = rng.random()
    if x < 0.2:
        return {"kind": "centry", "q": rng.choice([0.3, 0.6, 1.0]), "p": rng.choice([0.0, 0.002, 0.02])}
    if x < 0.42:
        return {"kind": "gstate", "q": rng.choice([0.3, 0.5, 0.8]), "p": rng.choice([0.0, 0.002, 0.01])}
    if x < 0.55:
        p = rng.choice([0.002, 0.01, 0.03, 0.1, 0.3])
        return {"kind": "uniform", "p": p, "pg": rng.choice([p, p, 0.5])}
    if x < 0.85:
        d = rng.randint(1, 3)
        hi = rng.choice([500, 3000, est_steps])
        return {"kind": "pct", "points": sorted(rng.randint(1, hi) for _ in range(d))}
    return {"kind": "uniform", "p": 0.0, "pg": 0.5}


def _types_in(t):
    yield t
    k = t[0]
    if k in ("opt", "list", "dict", "ann"):
        yield from _types_in(t[1])
    elif k in ("tuple", "union"):
        for x in t[1:]:
            yield from _types_in(x)
    elif k == "gen":
        for x in t[2]:
            yield from _types_in(x)


def gen_conc(rng, fam, kn, defined, first_bias=None, codecs=None):
    nthreads = rng.randint(2, 4)
    classes = callable_classes(fam, defined)
    progs = []
    focus = rng.choice(classes)
    # prefer classes whose decode goes through a tag registry when there are any
    disc = [c for c in classes if fam.own_cfg(c).get("discriminator")
            or any(t[0] == "ann" for f in fam.all_fields(c) for t in _types_in(f["t"]))]
    if disc and rng.random() < 0.5:
        focus = rng.choice(disc)
    if rng.random() < kn.get("p_same_call", 0.35):
        # "N threads make the first call at once": the very same call everywhere
        op = gen_call(rng, fam, kn, defined, cname=focus)
        progs = [[dict(op)] for _ in range(nthreads)]
        if fam.dialect_support(focus) and fam.dialects and rng.random() < 0.6:
            # ... through a different dialect in every thread
            ds = sorted(fam.dialects) + [None]
            off = rng.randrange(len(ds))
            for i, prog in enumerate(progs):
                d = ds[(i + off) % len(ds)]
                prog[0].pop("dialect", None)
                if d:
                    prog[0]["dialect"] = d
        return {"k": "conc", "progs": progs,
                "sched": gen_schedule(rng), "sseed": rng.getrandbits(32)}
    for _ in range(nthreads):
        prog = []
        for _ in range(rng.choice([1, 1, 2, 3])):
            if kn.get("codecs") and codecs and kn.get("shared_codec_threads", True) \
                    and rng.random() < 0.2:
                # a codec object created earlier in the history, shared by threads
                base = rng.choice(codecs)
                op = {k: base[k] for k in ("k", "id", "fmt", "dir", "shape", "dd") if k in base}
                try:
                    v = gen_value(rng, fam, op["shape"], defined, kn=kn)
                except Unbuildable:
                    v = None
                if v is not None and (kn.get("subclass_values", True)
                                      or not has_subclass_instance(fam, v, op["shape"])):
                    if op["dir"] == "enc":
                        op["val"] = v
                    else:
                        op["inp"] = to_input(fam, v, {"dialect": None, "tagpick": 0})
                    prog.append(op)
                    continue
            if kn.get("codecs") and rng.random() < 0.15:
                # a codec created and used by this thread only (one-shot style ids
                # are not shared, so creation itself races with the other threads)
                op = gen_codec_op(rng, fam, kn, defined, [])
                op["oneshot"] = True
                op.pop("id", None)
                op.pop("dd", None)
                prog.append(op)
                continue
            cname = focus if rng.random() < 0.6 else rng.choice(classes)
            prog.append(gen_call(rng, fam, kn, defined, cname=cname))
        progs.append(prog)
    return {"k": "conc", "progs": progs, "sched": gen_schedule(rng),
            "sseed": rng.getrandbits(32)}


def gen_history(rng, spec, kn, n_ops=None):
    fam = F.Fam(spec)
    nchunks = len(spec["chunks"])
    cur = 1
    defined = fam.defined_after(cur)
    ops = []
    codecs = []
    n_ops = n_ops or rng.randint(3, 10)
    healed = [False]
    for _ in range(n_ops):
        has_callable = bool(callable_classes(fam, defined))
        choices = []
        if has_callable:
            choices += ["call"] * 6
            if kn.get("threads"):
                choices += ["conc"] * 2
            if kn.get("aborts"):
                choices += ["abort"] * 2
        if kn.get("codecs") and any(
                n in defined and fam.cls(n).get("kind") != "nt" and not fam.cls(n).get("tvars")
                for n in fam.order):
            choices += ["codec"] * 2
        if cur < nchunks:
            choices += ["define"] * 2
        if spec.get("flaky") and not healed[0]:
            choices += ["heal"] * 2
        if not choices:
            break
        what = rng.choice(choices)
        if what == "heal":
            ops.append({"k": "heal"})
            healed[0] = True
            continue
        if what == "call":
            ops.append(gen_call(rng, fam, kn, defined))
        elif what == "abort":
            if kn.get("codecs") and rng.random() < 0.3:
                op = gen_codec_op(rng, fam, kn, defined, codecs)
            else:
                op = gen_call(rng, fam, kn, defined)
            retry = dict(op)
            if rng.random() < 0.3:
                op["abort_gen"] = rng.randint(1, 60)
            else:
                op["abort_at"] = int(2 ** rng.uniform(0, 13))
            ops.append(op)
            if rng.random() < 0.7:
                ops.append(retry)  # the same call again after the interrupted one
        elif what == "conc":
            conc = gen_conc(rng, fam, kn, defined, codecs=codecs)
            ops.append(conc)
            if rng.random() < 0.5:
                # the same calls again, one by one: damage done by the race persists
                for prog in conc["progs"]:
                    ops.append(dict(prog[0]))
        elif what == "codec":
            ops.append(gen_codec_op(rng, fam, kn, defined, codecs))
        elif what == "define":
            ops.append({"k": "define", "chunk": cur})
            cur += 1
            defined = fam.defined_after(cur)
    while cur < nchunks:
        ops.append({"k": "define", "chunk": cur})
        cur += 1
    if spec.get("flaky") and not healed[0]:
        ops.append({"k": "heal"})
    defined = fam.defined_after(cur)
    # final sweep: every class once more, so that state left behind by faults,
    # races or first calls is observed
    sweep = callable_classes(fam, defined)
    rng.shuffle(sweep)
    for cname in sweep[:4]:
        ops.append(gen_call(rng, fam, kn, defined, cname=cname, allow_bad=False))
    return ops
