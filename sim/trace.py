"""Tracing seam: line-step counting, step/depth budgets, abort injection (F4)
and the baton-passing thread scheduler (F1).

Pre-emption points are 'line' events in frames whose code lives in the
mashumaro package directory or in generated code (filename "<string>").
Exactly one simulated thread holds the baton; all others are parked on their
own semaphore.  Every decision comes from the `Schedule` object handed in.
"""
from __future__ import annotations

import os
import sys
import threading
import zlib

import mashumaro

PKG = os.path.dirname(os.path.abspath(mashumaro.__file__)) + os.sep

M61 = (1 << 61) - 1


class Budget(BaseException):
    """raised inside traced code when an op exceeds its step or depth budget"""


class InjectedAbort(MemoryError):
    """F4: an allocation failure injected at a traced line"""


_kind_cache: dict = {}


def code_kind(code):
    """None = untraced; otherwise a small int identifying the file
    (0 = generated code)."""
    k = _kind_cache.get(code)
    if k is None:
        fn = code.co_filename
        if fn == "<string>":
            k = 0
        elif fn.startswith(PKG):
            k = (zlib.crc32(fn[len(PKG):].encode()) & 0xFFFF) + 1
        else:
            k = -1
        _kind_cache[code] = k
    return None if k < 0 else k


_tl = threading.local()
_INSTR_TOOL = 4
_instr_enabled: set = set()
_instr_ready = [False]


def _instr_cb(code, offset):
    tr = getattr(_tl, "tr", None)
    if tr is not None and tr.sched is not None and tr.tripped is None:
        tr.sched.step(tr, 1, None, instr=True)


def enable_instruction_events(code):
    """Instruction-granularity pre-emption points inside one code object (used
    for the few functions that touch module-level mutable state: a one-line
    read-modify-write of a counter or cache cannot be split at line events)."""
    if code in _instr_enabled:
        return
    _instr_enabled.add(code)
    try:
        mon = sys.monitoring
        if not _instr_ready[0]:
            mon.use_tool_id(_INSTR_TOOL, "mashumaro-sim")
            mon.register_callback(_INSTR_TOOL, mon.events.INSTRUCTION, _instr_cb)
            _instr_ready[0] = True
        mon.set_local_events(_INSTR_TOOL, code, mon.events.INSTRUCTION)
    except Exception:
        pass  # line granularity only


_gstate_cache: dict = {}


def code_gstate(code, globs):
    """Does this function read or write module-level mutable state (a dict /
    list / set bound at module level, or a `global` assignment)?  Such functions
    are where process-wide caches and counters live; schedules and abort
    enumeration concentrate on them."""
    v = _gstate_cache.get(code)
    if v is None:
        import dis
        v = False
        try:
            for ins in dis.get_instructions(code):
                if ins.opname in ("STORE_GLOBAL", "DELETE_GLOBAL"):
                    v = True
                    break
                if ins.opname == "LOAD_GLOBAL" and (
                        isinstance(globs.get(ins.argval), (dict, list, set))
                        or ins.argval in ("setattr", "delattr")):
                    # module-level containers, and reflective writes (helpers and
                    # registries installed on classes / holders shared by threads)
                    v = True
                    break
        except Exception:
            v = False
        _gstate_cache[code] = v
    return v


class OpTrace:
    """Trace state for one operation on one thread."""

    __slots__ = ("steps", "depth", "max_depth", "budget_steps", "budget_depth",
                 "abort_at", "abort_site", "tripped", "digest", "sched", "tid",
                 "gen_steps", "shared", "abort_at_gen", "last_kind", "gsteps", "gflag")

    def __init__(self, budget_steps=400_000, budget_depth=400, abort_at=None,
                 sched=None, tid=0, shared=None, abort_at_gen=None):
        self.steps = 0
        self.gen_steps = 0
        self.depth = 0
        self.max_depth = 0
        self.budget_steps = budget_steps
        self.budget_depth = budget_depth
        self.abort_at = abort_at
        self.abort_at_gen = abort_at_gen
        self.last_kind = 0
        self.gsteps = []
        self.gflag = False
        self.abort_site = None
        self.tripped = None
        self.digest = 0
        self.sched = sched
        self.tid = tid
        self.shared = shared  # Sched: shared step counter across threads

    # global trace function (per thread)
    def tracer(self, frame, event, arg):
        kind = code_kind(frame.f_code)
        if kind is None:
            return None
        self.depth += 1
        if self.depth > self.max_depth:
            self.max_depth = self.depth
            if self.depth > self.budget_depth and self.tripped is None:
                self.tripped = "depth"
                raise Budget("depth")
        return self.local

    def local(self, frame, event, arg):
        if event == "line":
            kind = code_kind(frame.f_code)
            self.steps += 1
            if kind == 0:
                self.gen_steps += 1
                self.gflag = False
            else:
                self.gflag = code_gstate(frame.f_code, frame.f_globals)
                if self.gflag:
                    if len(self.gsteps) < 400:
                        self.gsteps.append(self.steps)
                    if self.sched is not None:
                        enable_instruction_events(frame.f_code)
            self.digest = (self.digest * 1000003 + (self.tid << 40) + (kind << 20)
                           + frame.f_lineno) % M61
            if self.steps == self.abort_at or (
                    kind == 0 and self.gen_steps == self.abort_at_gen):
                code = frame.f_code
                fn = code.co_filename
                self.abort_site = (
                    "<generated>" if fn == "<string>" else fn[len(PKG):],
                    code.co_name, frame.f_lineno)
                raise InjectedAbort("injected abort")
            if self.steps > self.budget_steps and self.tripped is None:
                self.tripped = "steps"
                raise Budget("steps")
            s = self.sched
            if s is not None:
                s.step(self, kind, frame)
            self.last_kind = kind
        elif event == "return":
            self.depth -= 1
        return self.local


def run_traced(fn, tr: OpTrace):
    """Run fn() on the current thread under tr; returns ("ok", value) or
    ("exc", exception)."""
    old = sys.gettrace()
    _tl.tr = tr
    sys.settrace(tr.tracer)
    try:
        try:
            return ("ok", fn())
        except Budget as e:
            return ("budget", e)
        except BaseException as e:  # noqa
            if isinstance(e, (KeyboardInterrupt, SystemExit)):
                raise
            return ("exc", e)
    finally:
        sys.settrace(old)
        _tl.tr = None


# --------------------------------------------------------------------------
# schedules
# --------------------------------------------------------------------------

class Schedule:
    """Decides, at each traced line of the running thread, whether the baton
    moves.  All randomness comes from the rng passed in."""

    def __init__(self, desc, rng=None):
        self.desc = desc
        self.kind = desc["kind"]
        self.rng = rng
        self.record = []  # [global_step, to_tid]
        if self.kind == "explicit":
            self.queue = [list(x) for x in desc["switches"]]
            self.qi = 0
        elif self.kind == "pct":
            self.change_points = set(desc["points"])
            self.prio = None
        elif self.kind == "uniform":
            self.p = desc["p"]
            self.pg = desc.get("pg", desc["p"])
        elif self.kind in ("centry", "gstate"):
            self.q = desc["q"]
            self.p = desc.get("p", 0.002)
        elif self.kind == "single":
            # preemption bound 1: thread `tid` runs first and is pre-empted exactly
            # once, at its `at`-th interesting line (generated code, or a function
            # touching module-level mutable state); the other threads then run to
            # completion one after another, then `tid` resumes
            self.s_tid = desc["tid"]
            self.s_at = desc["at"]
            self.s_what = desc.get("what", "gen")
            self.s_count = 0
            self.fired = False

    def init_threads(self, tids):
        if self.kind == "pct":
            order = list(tids)
            self.rng.shuffle(order)
            self.prio = {t: i + 10 for i, t in enumerate(order)}
            self.low = 9

    def first(self, runnable):
        if self.kind == "single":
            return self.s_tid if self.s_tid in runnable else min(runnable)
        if self.kind == "explicit":
            if self.qi < len(self.queue) and self.queue[self.qi][0] == 0:
                t = self.queue[self.qi][1]
                self.qi += 1
                if t in runnable:
                    return t
            return min(runnable)
        if self.kind == "pct":
            return max(runnable, key=lambda t: self.prio[t])
        return self.rng.choice(sorted(runnable))

    def decide(self, gstep, tid, runnable, kind, last_kind=0, gflag=False):
        """return tid to switch to, or None"""
        if len(runnable) < 2:
            return None
        if self.kind == "single":
            if tid == self.s_tid and not self.fired:
                hit = (kind == 0) if self.s_what == "gen" else gflag
                if hit:
                    self.s_count += 1
                    if self.s_count == self.s_at:
                        self.fired = True
                        return min(t for t in runnable if t != tid)
            return None
        if self.kind == "gstate":
            # pre-empt inside functions that touch module-level mutable state
            if self.rng.random() < (self.q if gflag else self.p):
                others = sorted(t for t in runnable if t != tid)
                return self.rng.choice(others)
            return None
        if self.kind == "centry":
            # pre-empt a thread at the moment generated code calls into the
            # builder (a compilation started at run time), so that the others
            # run while its registry / stub / cache update is half done
            entering = last_kind == 0 and kind != 0
            if self.rng.random() < (self.q if entering else self.p):
                others = sorted(t for t in runnable if t != tid)
                return self.rng.choice(others)
            return None
        if self.kind == "explicit":
            q = self.queue
            while self.qi < len(q) and 0 <= q[self.qi][0] < gstep:
                self.qi += 1  # stale entry (schedule was shrunk)
            if self.qi < len(q) and q[self.qi][0] == gstep:
                to = q[self.qi][1]
                self.qi += 1
                if to != tid and to in runnable:
                    return to
            return None
        if self.kind == "uniform":
            p = self.pg if kind == 0 else self.p
            if self.rng.random() < p:
                others = sorted(t for t in runnable if t != tid)
                return self.rng.choice(others)
            return None
        if self.kind == "pct":
            if gstep in self.change_points:
                self.prio[tid] = self.low
                self.low -= 1
            best = max(runnable, key=lambda t: self.prio[t])
            return best if best != tid else None
        return None

    def on_finish(self, gstep, runnable):
        if self.kind == "single":
            others = [t for t in runnable if t != self.s_tid]
            return min(others) if others else min(runnable)
        if self.kind == "explicit":
            q = self.queue
            while self.qi < len(q) and 0 <= q[self.qi][0] <= gstep:
                self.qi += 1
            if self.qi < len(q) and q[self.qi][0] < 0:
                to = q[self.qi][1]
                self.qi += 1
                if to in runnable:
                    return to
            return min(runnable)
        if self.kind == "pct":
            return max(runnable, key=lambda t: self.prio[t])
        return self.rng.choice(sorted(runnable))


class Sched:
    """Baton-passing scheduler over real threads."""

    def __init__(self, schedule: Schedule, budget_steps=1_500_000, budget_depth=400,
                 wall_timeout=120.0):
        self.schedule = schedule
        self.sems = {}
        self.runnable = []
        self.current = None
        self.gstep = 0
        self.switches = 0
        self.done = threading.Semaphore(0)
        self.budget_steps = budget_steps
        self.budget_depth = budget_depth
        self.tripped = None
        self.results = {}
        self.traces = {}
        self.wall_timeout = wall_timeout
        self.switch_log = []
        self.probes = {}
        self.inflight = {}   # tid -> label of op in progress (for probes)
        self.blocked = set()  # tids waiting for a real lock of the code under test
        self._wake_lock = threading.Lock()
        self.finished_detached = 0
        self.deadlocked = []

    # called from OpTrace.local on the running thread (and, with instr=True, from
    # the instruction callback inside functions touching module-level state)
    def step(self, tr, kind, frame, instr=False):
        if instr:
            tr.gflag = True
        if tr.tid in self.blocked:
            # this thread was blocked on a real lock of the code under test, the
            # baton was taken away from it by the watchdog; now that it woke up
            # it queues again and waits for its turn
            with self._wake_lock:
                self.blocked.discard(tr.tid)
                self.runnable.append(tr.tid)
                self.probes["lock_waits"] = self.probes.get("lock_waits", 0) + 1
                take = self.current is None
                if take:
                    self.current = tr.tid  # nobody holds the baton any more
            if not take:
                self.sems[tr.tid].acquire()
        self.gstep += 1
        if self.gstep > self.budget_steps:
            if self.tripped is None:
                self.tripped = "steps"
            if tr.tripped is None:
                tr.tripped = "steps"
                raise Budget("steps")
            return
        to = self.schedule.decide(self.gstep, tr.tid, self.runnable, kind, tr.last_kind,
                                  tr.gflag)
        if to is not None:
            self.switch_log.append([self.gstep, to])
            self.switches += 1
            inpkg = kind != 0
            self.inflight[tr.tid] = inpkg
            if inpkg:
                self.probes["preempt_in_compile"] = self.probes.get("preempt_in_compile", 0) + 1
                if any(self.inflight.get(t) for t in self.runnable if t != tr.tid):
                    self.probes["concurrent_compile"] = self.probes.get("concurrent_compile", 0) + 1
            self.current = to
            self.sems[to].release()
            self.sems[tr.tid].acquire()

    def _finish(self, tid):
        if tid in self.blocked:
            # woke up from a lock and ran to its end without another traced line
            with self._wake_lock:
                self.blocked.discard(tid)
                self.finished_detached += 1
                last = not self.runnable and not self.blocked
            if last:
                self.done.release()
            return
        self.runnable.remove(tid)
        self.inflight.pop(tid, None)
        if self.runnable:
            to = self.schedule.on_finish(self.gstep, self.runnable)
            self.switch_log.append([-self.gstep - 1, to])
            self.current = to
            self.sems[to].release()
        elif not self.blocked:
            self.done.release()
        else:
            with self._wake_lock:
                self.current = None  # threads waking up from a lock take the baton

    def _watchdog_pass_baton(self):
        """The baton holder made no traced step for a while: it is blocked on a
        lock held by a parked thread (a library that synchronises its own
        compilation is fine).  Take the baton away and let another thread run."""
        tid = self.current
        if tid is None or tid not in self.runnable:
            return False
        others = [t for t in self.runnable if t != tid]
        if not others:
            return False
        self.runnable.remove(tid)
        self.blocked.add(tid)
        to = min(others)
        self.switch_log.append([self.gstep, to])
        self.current = to
        self.sems[to].release()
        return True

    def run(self, programs):
        """programs: {tid: callable(OpTraceFactory) -> result}.  Each callable is
        given a function make_trace() returning a fresh OpTrace bound to this
        scheduler and must run its ops under run_traced."""
        tids = sorted(programs)
        self.schedule.init_threads(tids)
        threads = []
        errors = []

        def body(tid):
            self.sems[tid].acquire()
            try:
                self.results[tid] = programs[tid](
                    lambda: OpTrace(budget_steps=self.budget_steps,
                                    budget_depth=self.budget_depth,
                                    sched=self, tid=tid))
            except BaseException as e:  # harness bug
                errors.append((tid, e))
            finally:
                sys.settrace(None)
                self._finish(tid)

        old_size = threading.stack_size()
        threading.stack_size(256 * 1024 * 1024)
        try:
            for tid in tids:
                self.sems[tid] = threading.Semaphore(0)
                self.runnable.append(tid)
                th = threading.Thread(target=body, args=(tid,), daemon=True,
                                      name=f"sim-{tid}")
                threads.append(th)
                th.start()
        finally:
            threading.stack_size(old_size)
        first = self.schedule.first(self.runnable)
        self.switch_log.append([0, first])
        self.current = first
        self.sems[first].release()
        import time as _time
        t_start = _time.time()
        last_step, last_change = -1, _time.time()
        while not self.done.acquire(timeout=0.1):
            now = _time.time()
            if self.gstep != last_step:
                last_step, last_change = self.gstep, now
            elif now - last_change > 0.4:
                if self._watchdog_pass_baton():
                    last_change = now
                elif now - last_change > 10.0 and self.blocked:
                    # every remaining thread waits for a lock nobody will release
                    self.deadlocked = sorted(self.blocked | set(self.runnable))
                    break
            if now - t_start > self.wall_timeout:
                raise HarnessError("scheduler wall timeout (deadlock in harness?)")
        for th in threads:
            th.join(self.wall_timeout if not self.deadlocked else 0.1)
        if errors:
            raise HarnessError(f"harness exception in simulated thread: {errors[0]!r}") from errors[0][1]
        return self.results


class HarnessError(Exception):
    pass
