"""Delta-debugging of a failing case: operation list, family spec, schedule.
A candidate is kept only if it still fails with the same violation class."""
from __future__ import annotations

import json
import time

from . import family as F


class Budgeted:
    def __init__(self, run_case, target_class, max_execs=600, max_wall=180.0):
        self.run_case = run_case          # case -> violation dict or None (may raise)
        self.target = target_class
        self.execs = 0
        self.max_execs = max_execs
        self.deadline = time.time() + max_wall

    def exhausted(self):
        return self.execs >= self.max_execs or time.time() > self.deadline

    def fails(self, case):
        if self.exhausted():
            return None
        self.execs += 1
        try:
            v = self.run_case(case)
        except Exception:
            return None  # candidate is not a valid program for the harness
        if v is not None and same_class(v["class"], self.target):
            return v
        return None


def same_class(a, b):
    return a == b


def mentions(x, name):
    return json.dumps(name) in json.dumps(x)


def strip_field_from_value(v, cname_set, fname):
    """remove [fname, value] pairs from object value-exprs of the given classes"""
    if not isinstance(v, list) or not v:
        return v
    if v[0] == "o":
        fields = [[n, strip_field_from_value(x, cname_set, fname)] for n, x in v[2]
                  if not (n == fname and v[1] in cname_set)]
        return ["o", v[1], fields]
    if v[0] in ("l", "t"):
        return [v[0], [strip_field_from_value(x, cname_set, fname) for x in v[1]]]
    if v[0] == "m":
        return ["m", [[k, strip_field_from_value(x, cname_set, fname)] for k, x in v[1]]]
    if v[0] == "nt":
        return ["nt", v[1], [strip_field_from_value(x, cname_set, fname) for x in v[2]]]
    if v[0] == "ao":
        return v
    return v


def map_ops(ops, fn):
    out = []
    for op in ops:
        if op["k"] == "conc":
            progs = []
            for prog in op["progs"]:
                p2 = [y for y in (fn(o) for o in prog) if y is not None]
                if p2:
                    progs.append(p2)
            if progs:
                o2 = dict(op)
                o2["progs"] = progs
                out.append(o2)
        else:
            y = fn(op)
            if y is not None:
                out.append(y)
    return out


def drop_class(case, name):
    spec = F.clone(case["spec"])
    fam = F.Fam(spec)
    if name not in fam.classes:
        return None
    doomed = set([name] + fam.subclasses(name))
    for chunk in spec["chunks"]:
        chunk[:] = [c for c in chunk if c["name"] not in doomed]
        for c in chunk:
            removed = [f["n"] for f in c.get("fields", []) if fam.type_refs(f["t"]) & doomed]
            c["fields"] = [f for f in c.get("fields", []) if f["n"] not in removed]
            c["_removed"] = removed
    # renumber chunks: drop empty ones together with their define ops
    removed_fields = {}
    for chunk in spec["chunks"]:
        for c in chunk:
            for fn_ in c.pop("_removed", []):
                removed_fields.setdefault(fn_, set()).add(c["name"])
    fam2 = F.Fam(spec)

    def fix(op):
        if op["k"] == "define":
            return op
        if any(mentions(op, d) for d in doomed):
            return None
        o2 = dict(op)
        if "val" in o2:
            v = o2["val"]
            for fn_, owners in removed_fields.items():
                holders = set()
                for o in owners:
                    holders |= set([o] + fam2.subclasses(o))
                v = strip_field_from_value(v, holders, fn_)
            o2["val"] = v
        return o2

    ops = map_ops(case["ops"], fix)
    new = dict(case)
    new["spec"] = spec
    new["ops"] = ops
    return compact_chunks(new)


def compact_chunks(case):
    spec = case["spec"]
    if all(spec["chunks"]) or len(spec["chunks"]) == 1:
        return case
    keep = [i for i, ch in enumerate(spec["chunks"]) if ch or i == 0]
    remap = {old: new for new, old in enumerate(keep)}
    spec = dict(spec)
    spec["chunks"] = [case["spec"]["chunks"][i] for i in keep]
    ops = []
    for op in case["ops"]:
        if op["k"] == "define":
            if op["chunk"] in remap:
                o2 = dict(op)
                o2["chunk"] = remap[op["chunk"]]
                ops.append(o2)
        else:
            ops.append(op)
    new = dict(case)
    new["spec"] = spec
    new["ops"] = ops
    return new


def merge_chunks(case):
    spec = F.clone(case["spec"])
    if len(spec["chunks"]) < 2:
        return None
    allc = [c for ch in spec["chunks"] for c in ch]
    spec["chunks"] = [allc]
    new = dict(case)
    new["spec"] = spec
    new["ops"] = [op for op in case["ops"] if op["k"] != "define"]
    return new


def eager_order(case):
    """define everything in dependency order in one chunk (removes forward refs)"""
    spec = F.clone(case["spec"])
    spec["chunks"] = [F.twin_order(spec)]
    new = dict(case)
    new["spec"] = spec
    new["ops"] = [op for op in case["ops"] if op["k"] != "define"]
    return new


def drop_field(case, cname, fname):
    spec = F.clone(case["spec"])
    fam = F.Fam(spec)
    c = fam.classes[cname]
    c["fields"] = [f for f in c["fields"] if f["n"] != fname]
    holders = set([cname] + fam.subclasses(cname))

    def fix(op):
        if "val" in op:
            o2 = dict(op)
            o2["val"] = strip_field_from_value(op["val"], holders, fname)
            return o2
        return op

    new = dict(case)
    new["spec"] = spec
    new["ops"] = map_ops(case["ops"], fix)
    return new


def spec_edits(case):
    """yield candidate cases with one simplification of the spec applied"""
    spec = case["spec"]
    fam = F.Fam(spec)
    for name in reversed(fam.order):
        c = drop_class(case, name)
        if c is not None:
            yield f"drop class {name}", c
    m = merge_chunks(case)
    if m is not None:
        yield "merge chunks", m
    if any(fam.field_refs(n) - set(fam.order[:i + 1]) for i, n in enumerate(fam.order)):
        yield "eager order", eager_order(case)
    for name in fam.order:
        for f in list(fam.classes[name].get("fields", [])):
            if f.get("literal") is not None:
                continue
            yield f"drop field {name}.{f['n']}", drop_field(case, name, f["n"])
    for ci, chunk in enumerate(spec["chunks"]):
        for k, c in enumerate(chunk):
            def edit(fn, ci=ci, k=k):
                s2 = F.clone(spec)
                fn(s2["chunks"][ci][k])
                new = dict(case)
                new["spec"] = s2
                return new
            cfg = c.get("cfg")
            if cfg is not None:
                for key in list(cfg):
                    if key == "cgo":
                        for o in cfg["cgo"]:
                            yield f"drop cgo {c['name']}.{o}", edit(
                                lambda cc, o=o: cc["cfg"]["cgo"].remove(o))
                    else:
                        yield f"drop cfg {c['name']}.{key}", edit(
                            lambda cc, key=key: cc["cfg"].pop(key))
                if not cfg:
                    yield f"drop empty cfg {c['name']}", edit(lambda cc: cc.pop("cfg"))
            for h in c.get("hooks", []):
                yield f"drop hook {c['name']}.{h}", edit(lambda cc, h=h: cc["hooks"].remove(h))
            if len(c.get("mixins", [])) > 1:
                for m_ in c["mixins"]:
                    yield f"drop mixin {c['name']}.{m_}", edit(
                        lambda cc, m_=m_: cc["mixins"].remove(m_))
            for f_i, f in enumerate(c.get("fields", [])):
                if f.get("alias"):
                    yield f"drop alias {c['name']}.{f['n']}", edit(
                        lambda cc, f_i=f_i: cc["fields"][f_i].pop("alias"))
                if f.get("ser"):
                    yield f"drop ser {c['name']}.{f['n']}", edit(
                        lambda cc, f_i=f_i: cc["fields"][f_i].pop("ser"))
                t = f["t"]
                if t[0] in ("opt", "list", "dict") and "d" not in f:
                    pass
    if spec.get("aux") and not mentions([spec["chunks"], case["ops"]], "acls") \
            and not mentions(case["ops"], "ao"):
        s2 = F.clone(spec)
        s2.pop("aux")
        new = dict(case)
        new["spec"] = s2
        yield "drop aux module", new
    if spec.get("pep563"):
        s2 = F.clone(spec)
        s2["pep563"] = False
        new = dict(case)
        new["spec"] = s2
        yield "no pep563", new
    for i, d in enumerate(spec.get("dialects", [])):
        for key in list(d):
            if key != "name":
                s2 = F.clone(spec)
                s2["dialects"][i].pop(key)
                new = dict(case)
                new["spec"] = s2
                yield f"drop dialect opt {d['name']}.{key}", new
        if not mentions([case["ops"], spec["chunks"]], d["name"]):
            s2 = F.clone(spec)
            s2["dialects"].pop(i)
            new = dict(case)
            new["spec"] = s2
            yield f"drop dialect {d['name']}", new


def op_edits(case, vio):
    """simplify individual ops: conc -> fewer threads / sequential, drop kwargs"""
    ops = case["ops"]
    for i, op in enumerate(ops):
        if op["k"] == "conc":
            # sequentialise
            flat = [o for prog in op["progs"] for o in prog]
            new = dict(case)
            new["ops"] = ops[:i] + flat + ops[i + 1:]
            yield "sequentialise conc", new
            for t in range(len(op["progs"])):
                if len(op["progs"]) > 1:
                    o2 = dict(op)
                    o2["progs"] = op["progs"][:t] + op["progs"][t + 1:]
                    new = dict(case)
                    new["ops"] = ops[:i] + [o2] + ops[i + 1:]
                    yield f"drop thread {t}", new
                for j in range(len(op["progs"][t])):
                    if len(op["progs"][t]) > 1:
                        o2 = dict(op)
                        o2["progs"] = [list(p) for p in op["progs"]]
                        del o2["progs"][t][j]
                        new = dict(case)
                        new["ops"] = ops[:i] + [o2] + ops[i + 1:]
                        yield f"drop thread op {t}.{j}", new
        else:
            for key in ("kw", "dialect", "dd", "abort_at", "abort_gen"):
                if key in op:
                    o2 = {k: v for k, v in op.items() if k != key}
                    new = dict(case)
                    new["ops"] = ops[:i] + [o2] + ops[i + 1:]
                    yield f"drop {key} of op {i}", new


def ddmin_list(items, test):
    """classic ddmin over a list; test(sublist) -> bool (still failing)"""
    n = 2
    while len(items) >= 2:
        size = max(1, len(items) // n)
        chunks = [items[i:i + size] for i in range(0, len(items), size)]
        reduced = False
        for i in range(len(chunks)):
            cand = [x for j, ch in enumerate(chunks) if j != i for x in ch]
            if test(cand):
                items = cand
                n = max(n - 1, 2)
                reduced = True
                break
        if not reduced:
            if size == 1:
                break
            n = min(n * 2, len(items))
    if len(items) == 1 and test([]):
        items = []
    return items


def minimise(case, vio, run_case, max_execs=600, max_wall=180.0, log=None):
    """returns (case, violation) minimised"""
    b = Budgeted(run_case, vio["class"], max_execs, max_wall)
    best, best_v = case, vio

    def note(msg):
        if log:
            log(msg)

    # 1. cut everything after the failing op
    idx = best_v["op_index"]
    cand = dict(best)
    cand["ops"] = best["ops"][:idx + 1]
    v = b.fails(cand)
    if v:
        best, best_v = cand, v
    # 2. ddmin the prefix
    def prefix_test(prefix):
        c = dict(best)
        c["ops"] = prefix + [best["ops"][-1]]
        return b.fails(c) is not None

    if len(best["ops"]) > 1:
        prefix = ddmin_list(best["ops"][:-1], prefix_test)
        cand = dict(best)
        cand["ops"] = prefix + [best["ops"][-1]]
        v = b.fails(cand)
        if v:
            best, best_v = cand, v
            note(f"ops -> {len(best['ops'])}")
    # 3. greedy fixpoint over op and spec edits
    progress = True
    while progress and not b.exhausted():
        progress = False
        for label, cand in list(op_edits(best, best_v)) + list(spec_edits(best)):
            if b.exhausted():
                break
            v = b.fails(cand)
            if v:
                best, best_v = cand, v
                note(label)
                progress = True
                break
    # 4. cut again (edits may have moved the failing op earlier)
    idx = best_v["op_index"]
    if idx + 1 < len(best["ops"]):
        cand = dict(best)
        cand["ops"] = best["ops"][:idx + 1]
        v = b.fails(cand)
        if v:
            best, best_v = cand, v
    # 5. explicit schedule, then ddmin its switches
    for i, op in enumerate(best["ops"]):
        if op["k"] != "conc" or op["sched"]["kind"] == "explicit":
            continue
        logs = best_v.get("switch_logs") or {}
        sl = logs.get(i) or logs.get(str(i))
        if not sl:
            continue
        o2 = dict(op)
        o2["sched"] = {"kind": "explicit", "switches": sl}
        cand = dict(best)
        cand["ops"] = best["ops"][:i] + [o2] + best["ops"][i + 1:]
        v = b.fails(cand)
        if not v:
            continue
        best, best_v = cand, v

        def sw_test(sw, i=i):
            o3 = dict(best["ops"][i])
            o3["sched"] = {"kind": "explicit", "switches": sw}
            c = dict(best)
            c["ops"] = best["ops"][:i] + [o3] + best["ops"][i + 1:]
            return b.fails(c) is not None

        sw = ddmin_list(list(sl), sw_test)
        o3 = dict(best["ops"][i])
        o3["sched"] = {"kind": "explicit", "switches": sw}
        cand = dict(best)
        cand["ops"] = best["ops"][:i] + [o3] + best["ops"][i + 1:]
        v = b.fails(cand)
        if v:
            best, best_v = cand, v
            note(f"switches {len(sl)} -> {len(sw)}")
    return best, best_v, b.execs
