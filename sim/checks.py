"""The check proper: self-tests, batches, known-finding matching, evidence."""
from __future__ import annotations

import collections
import json
import os
import subprocess
import sys
import time

from . import features, plans
from .run import (CHUNK, REPO, ROOT, HarnessFailure, chain_task, chunk_task,
                  first_outcome_diff, fresh_outcomes_task, load_findings, open_findings,
                  probe_task, run_index, run_pool)

LEVELS = {"C12": "exploration", "C13": "exploration", "C14": "exploration",
          "C15": "exploration", "C20": "exploration"}


def chunks(lst, n):
    return [lst[i:i + n] for i in range(0, len(lst), n)]


def selftest_task(prop, seed, specs, profiles):
    """run each (batch, idx) twice in one process; return digests"""
    out = {}
    for b, idx in specs:
        r1 = run_index(prop, seed, idx, profiles[b], minimise=False)
        r2 = run_index(prop, seed, idx, profiles[b], minimise=False)
        out[f"{b}:{idx}"] = [r1["digest"], r2["digest"],
                             r1["violation"]["class"] if r1["violation"] else None,
                             r2["violation"]["class"] if r2["violation"] else None]
    return out


def determinism_selftest(prop, seed, batches, profiles, jobs, n_per_batch=4):
    specs = []
    for b, runs in batches:
        n = 1 if b in ("abort_enum", "conc_enum") else n_per_batch
        idxs = plans.batch_indices(b, runs)[:n]
        specs += [(b, i) for i in idxs]
    # fresh interpreter under another hash seed, started first so that it runs
    # while the in-process pairs are executed in parallel workers
    env = dict(os.environ)
    env["PYTHONHASHSEED"] = "12345" if os.environ.get("PYTHONHASHSEED") != "12345" else "54321"
    env["VERIF_REPO"] = REPO
    # (enumeration runs are hundreds of executions each: they are compared in
    # process only)
    cross = [(b, i) for b, i in specs if b not in ("abort_enum", "conc_enum")]
    arg = ",".join(f"{b}:{i}" for b, i in cross)
    cmd = [sys.executable, "-m", "sim.run", "--property", prop, "--seed", str(seed), "--digests", arg]
    proc = subprocess.Popen(cmd, cwd=ROOT, env=env, stdout=subprocess.PIPE, stderr=subprocess.PIPE,
                            text=True)
    res, _ = run_pool([(selftest_task, (prop, seed, [sp], profiles)) for sp in specs], jobs)
    twice = {}
    for r in res:
        twice.update(r)
    warm_dependent = []
    for k, (d1, d2, c1, c2) in twice.items():
        if c1 != c2:
            raise HarnessFailure(f"determinism self-test: verdict differs between two executions of {k} in one process: {c1} vs {c2}")
        if d1 != d2:
            # same verdict, different traced path: process-global caches in the
            # code under test (first use vs. later use).  Reported, not fatal.
            warm_dependent.append(k)
    if warm_dependent:
        print(f"self-test note: trace of {warm_dependent} differs between first and second "
              "execution in one process (process-global caches in the library); verdicts agree")
    try:
        out, err = proc.communicate(timeout=900)
    except subprocess.TimeoutExpired:
        proc.kill()
        raise HarnessFailure("determinism self-test subprocess timed out")
    line = [l for l in out.splitlines() if l.startswith("DIGESTS ")]
    if proc.returncode != 0 or not line:
        raise HarnessFailure(f"determinism self-test subprocess failed: rc={proc.returncode}\n{out[-2000:]}\n{err[-2000:]}")
    other = json.loads(line[0][len("DIGESTS "):])
    hash_order_dependent = []
    for k, (d1, _, c1, _) in twice.items():
        if k not in other:
            continue
        if other[k][1] != c1:
            raise HarnessFailure(f"determinism self-test: verdict differs across interpreters for {k}: {other[k]} vs {[d1, c1]}")
        if other[k][0] != d1:
            # same verdict, different traced path: some code under test iterates in
            # str-hash order.  The check itself runs under PYTHONHASHSEED=0, so
            # replay stays exact; report it rather than fail.
            hash_order_dependent.append(k)
    if hash_order_dependent:
        print(f"self-test note: trace depends on PYTHONHASHSEED for {hash_order_dependent} "
              "(verdicts agree; check runs pinned to PYTHONHASHSEED=0)")
    return {"runs_compared": len(specs), "in_process_twice": True,
            "fresh_interpreter_other_hashseed": env["PYTHONHASHSEED"],
            "trace_hash_order_dependent": hash_order_dependent,
            "trace_process_warmup_dependent": warm_dependent}


def run_check(prop, tier, seed, args):
    t0 = time.time()
    print(f"check property={prop} tier={tier} VERIF_SEED={seed} jobs={args.jobs} repo={REPO}")
    sys.stdout.flush()
    known = load_findings()
    open_f = open_findings(prop)
    batches = plans.plan(prop, tier)
    if args.batch:
        batches = [(b, r) for b, r in batches if b == args.batch]
    batches = [(b, max(1, int(r * args.runs_scale))) for b, r in batches]
    profiles = {b: plans.profile_for(prop, b, open_f) for b, _ in batches}
    for pr in profiles.values():
        # minimisation budget per violating run
        pr["min_execs"], pr["min_wall"] = (150, 25.0) if tier == "quick" else (400, 90.0)
        if tier != "quick":
            # deeper local enumeration in the thorough tier
            pr.update({"enum_max_execs": 120, "cap_gen": 100, "cap_gstate": 150,
                       "enum_max_wall": 400.0})
    wall_cap = args.wall if args.wall else (600 if tier == "quick" else 3 * 3600)
    deadline = t0 + wall_cap
    agg = {
        "runs": 0, "stats": collections.Counter(), "per_batch": {},
        "digests": set(), "nontrivial": set(), "interleavings": set(), "shapes": set(),
        "samples": [], "violations": [], "abort_sites": collections.Counter(),
        "by_idx": {},
    }
    exit_code = 0
    selftest = None
    canary = None
    try:
        if not args.no_selftest:
            selftest = determinism_selftest(prop, seed, batches, profiles, args.jobs)
            print(f"self-test determinism ok: {selftest}")
            from . import canaries
            canary = canaries.run_canaries(prop, seed, args.jobs)
            print(f"self-test sensitivity ok: {canary}")
            sys.stdout.flush()
        for b, runs in batches:
            tb = time.time()
            per = {"runs": 0, "stats": collections.Counter()}
            agg["per_batch"][b] = per

            def on_result(results, per=per):
                for r in results:
                    absorb(agg, per, r)

            idxs = plans.batch_indices(b, runs)
            # enumeration runs are hundreds of executions each: one per worker
            chunk_lists = chunks(idxs, 1 if b in ("abort_enum", "conc_enum") else CHUNK)
            tasks = [(chunk_task, (prop, seed, ch, profiles[b], not args.no_minimise))
                     for ch in chunk_lists]
            _, skipped = run_pool(tasks, args.jobs, deadline=deadline, on_result=on_result)
            if b not in ("abort_enum", "conc_enum") and time.time() < deadline:
                isolation_probes(prop, seed, b, profiles[b], chunk_lists, agg, args,
                                 24 if tier == "quick" else 250)
            per["wall_s"] = round(time.time() - tb, 2)
            per["skipped_for_wall_cap"] = skipped * CHUNK
            print(f"batch {b}: runs={per['runs']} wall={per['wall_s']}s "
                  f"violations_so_far={len(agg['violations'])}")
            sys.stdout.flush()
    except HarnessFailure as e:
        print("HARNESS-ERROR " + str(e))
        return 2
    # ---- verdicts ----------------------------------------------------------
    os.makedirs(os.path.join(ROOT, "replays"), exist_ok=True)
    seen_known = {}
    unknown = []
    for v in agg["violations"]:
        rec = v["record"]
        hit = None
        for e in known:
            if e.get("status") == "open" and features.matches(e, rec):
                hit = e
                break
        if hit:
            seen_known.setdefault(hit["id"], [hit, 0])[1] += 1
        else:
            unknown.append(v)
    for kid, (e, n) in sorted(seen_known.items()):
        print(f"KNOWN-FINDING: property={prop} {kid} {e['what']} (re-observed {n}x in this run)")
    summary = collections.Counter(
        (v["class"], tuple(v["record"]["features"])) for v in unknown)
    for (cls_, feats), n in summary.most_common(12):
        print(f"unknown-summary n={n} class={cls_} features={list(feats)}")
    written = set()
    for v in unknown:
        key = json.dumps(v["record"], sort_keys=True)
        if key in written or len(written) >= 8:
            continue
        written.add(key)
        path = os.path.join(ROOT, "replays", f"{prop}-s{seed}-i{v['replay']['index']}.json")
        with open(path, "w") as f:
            json.dump(v["replay"], f, indent=1, sort_keys=True)
        print(f"violation class={v['class']} features={v['record']['features']} op={v['record']['op']}")
        print(f"VIOLATION property={prop} replay={path}")
        exit_code = 1
    wall = time.time() - t0
    write_evidence(prop, tier, seed, agg, wall, len(unknown), seen_known, selftest, canary, args)
    print(f"done property={prop} runs={agg['runs']} unknown_violations={len(unknown)} "
          f"known={sum(n for _, n in seen_known.values())} wall={wall:.1f}s exit={exit_code}")
    return exit_code


def isolation_probes(prop, seed, batch, profile, chunk_lists, agg, args, n_probe):
    """Cross-family isolation: the last run of a worker's chunk (executed after
    seven unrelated families in the same process) is executed again alone in a
    fresh process; its normalised outcomes must be identical.  A difference means
    some process-wide state of the library leaked from one family to another."""
    by_idx = agg["by_idx"]
    victims = []
    for ch in chunk_lists:
        if len(ch) < 2 or ch[-1] not in by_idx or by_idx[ch[-1]]["violation"]:
            continue
        victims.append((ch, ch[-1]))
    step = max(1, len(victims) // n_probe)
    victims = victims[::step][:n_probe]
    if not victims:
        return
    res, _ = run_pool([(probe_task, (prop, seed, v, profile)) for _, v in victims], args.jobs)
    fresh_by = {r["idx"]: r for r in res}
    agg["stats"]["isolation_probes"] += len(res)
    reported = 0
    for ch, v in victims:
        fr = fresh_by.get(v)
        if fr is None or fr["violation"] is not None:
            continue
        if fr["out_digest"] == by_idx[v]["out_digest"]:
            continue
        agg["stats"]["isolation_mismatches"] += 1
        if reported >= 2:
            continue
        reported += 1
        # which earlier family of the chunk is responsible?
        pairs, _ = run_pool([(chain_task, (prop, seed, j, v, profile)) for j in ch[:-1]], args.jobs)
        culprit = None
        for pr in sorted(pairs, key=lambda x: x["first"]):
            if pr["dirty"]["violation"] is None and pr["dirty"]["out_digest"] != fr["out_digest"]:
                culprit = pr
                break
        if culprit is None:
            # needs more than one predecessor: report the whole chunk prefix
            continue
        fresh_full, _ = run_pool([(fresh_outcomes_task, (culprit["cases"][1],))], 1)
        diff = first_outcome_diff(fresh_full[0]["outcomes"], culprit["dirty"]["outcomes"])
        if diff is None:
            continue
        vcase = culprit["cases"][1]
        vio = {"class": "cross-family-contamination", "op_index": diff.get("op_index") or 0,
               "sub": diff.get("sub"), "diff_at": None}
        rec = features.record(vcase, vio)
        replay = {"kind": "chain", "prop": prop, "seed": seed, "index": v,
                  "indices": [culprit["first"], v], "batch": batch, "cases": culprit["cases"],
                  "violation": {"class": "cross-family-contamination", "diff": diff},
                  "record": rec}
        agg["violations"].append({"class": "cross-family-contamination", "record": rec,
                                  "replay": replay})


def absorb(agg, per, r):
    agg["by_idx"][r["idx"]] = {"out_digest": r.get("out_digest"),
                               "violation": r["violation"]["class"] if r["violation"] else None}
    agg["runs"] += 1
    per["runs"] += 1
    agg["stats"]["executions"] += r.get("execs", 1)
    per["stats"]["executions"] += r.get("execs", 1)
    st = r["stats"]
    for k, v in st.items():
        if isinstance(v, int):
            agg["stats"][k] += v
            per["stats"][k] += v
    for site, n in (st.get("abort_sites") or {}).items():
        agg["abort_sites"][site] += n
    agg["digests"].add(r["digest"])
    agg["shapes"].add(r.get("shape"))
    if r.get("interleaving"):
        agg["interleavings"].add(r["interleaving"])
    if nontrivial(r):
        agg["nontrivial"].add(r["digest"])
    if r.get("sample") and len(agg["samples"]) < 6:
        agg["samples"].append(r["sample"])
    if r["violation"]:
        agg["violations"].append(r["violation"])


def nontrivial(r):
    st = r["stats"]
    return st.get("ops", 0) >= 2 and (
        st.get("conc", 0) or st.get("defines", 0) or st.get("aborts_fired", 0)
        or st.get("ops", 0) >= 3)


def write_evidence(prop, tier, seed, agg, wall, n_unknown, seen_known, selftest, canary, args):
    st = dict(agg["stats"])
    runs = agg["runs"]
    cov = {
        "evaluations": runs,
        "distinct_nontrivial": len(agg["nontrivial"]),
        "rule": ("one evaluation = one simulated run: a freshly generated class family plus an "
                 "operation history executed under the tracing simulator, every operation compared "
                 "with a history-free reference (same op alone on a fresh eager twin family). "
                 "Non-trivial = the run compared >= 3 operations, or >= 2 with at least one "
                 "define-after-call, concurrent batch or fired abort; distinct = distinct event-log "
                 "digest (traced (thread,file,line) sequence + normalised outcomes)."),
        "samples": agg["samples"] or [{"note": "no sample index in this run"}],
        "runs_per_hour": round(runs / wall * 3600) if wall > 0 else 0,
        "simulated_time_line_steps": st.get("steps", 0),
        "generated_code_line_steps": st.get("gen_steps", 0),
        "operations_compared": st.get("ops", 0),
        "reference_families_built": st.get("refs", 0),
        "outcomes": {"ok": st.get("ok", 0), "documented_exception": st.get("exc", 0)},
        "faults_fired": {
            "F1_context_switches": st.get("switches", 0),
            "F1_concurrent_batches": st.get("conc", 0),
            "F1_preempted_inside_compilation": st.get("preempt_in_compile", 0),
            "F1_two_threads_inside_compilation": st.get("concurrent_compile", 0),
            "F2_failing_inputs": st.get("f2", 0),
            "F3_ops_before_forward_ref_resolved": st.get("f3", 0),
            "F3_define_after_call_events": st.get("defines", 0),
            "F4_aborts_fired": st.get("aborts_fired", 0),
            "F4_aborts_configured_but_op_finished_first": st.get("aborts_missed", 0),
        },
        "F4_abort_sites_top": dict(collections.Counter(agg["abort_sites"]).most_common(12)),
        "cross_family_isolation": {
            "probes": st.get("isolation_probes", 0),
            "mismatches": st.get("isolation_mismatches", 0),
            "what": "last run of a worker chunk re-executed alone in a fresh process; normalised outcomes must be identical"},
        "distinct_run_digests": len(agg["digests"]),
        "distinct_interleavings": len(agg["interleavings"]),
        "distinct_history_shapes": len(agg["shapes"]),
        "per_batch": {b: {"runs": p["runs"], "wall_s": p.get("wall_s"),
                          "skipped_for_wall_cap": p.get("skipped_for_wall_cap", 0),
                          "ops": p["stats"].get("ops", 0),
                          "switches": p["stats"].get("switches", 0),
                          "aborts_fired": p["stats"].get("aborts_fired", 0)}
                      for b, p in agg["per_batch"].items()},
        "real_vs_stub": {
            "real": ["mashumaro from /repo working tree (builder, pack/unpack, mixins, codecs, jsonschema)",
                     "orjson, msgpack, PyYAML, tomli_w/tomllib as installed in /venv",
                     "OS threads (serialised by the simulator's baton)"],
            "stub": ["uuid.uuid4 (run-local counter)"],
        },
        "self_tests": {"determinism": selftest, "sensitivity_canaries": canary},
        "known_findings_reobserved": {k: n for k, (e, n) in seen_known.items()},
        "exhaustive": False,
    }
    ev = {
        "property_id": prop,
        "tier": tier,
        "seed": seed,
        "level": LEVELS[prop],
        "coverage": cov,
        "assumptions": [
            "CPython 3.12 sys.settrace line events are the pre-emption points; races inside one line of builder code are not explored",
            "the eager, single-call behaviour of mashumaro is the reference: a bug identical in every history is invisible",
            "class definition is atomic",
        ],
        "wall_s": round(wall, 2),
        "violations": n_unknown,
    }
    path = args.evidence or os.path.join(ROOT, "evidence", f"{prop}.json")
    os.makedirs(os.path.dirname(path), exist_ok=True)
    with open(path, "w") as f:
        json.dump(ev, f, indent=1, sort_keys=True)
