"""Which batches a check runs per property and tier.  Fault-free and
fault-injecting configurations are separate batches with separate counters."""
from __future__ import annotations

BATCH_BASE = 1_000_000

PLANS = {
    "C20": {
        "quick": [("hist", 260), ("threads", 90)],
        "thorough": [("hist", 10000), ("threads", 4000)],
    },
    "C15": {
        "quick": [("hist", 600), ("threads", 120)],
        "thorough": [("hist", 20000), ("threads", 4000)],
    },
    "C12": {
        "quick": [("hist", 2000), ("threads", 300), ("abort", 300)],
        "thorough": [("hist", 50000), ("threads", 6000), ("abort", 6000)],
    },
    "C13": {
        "quick": [("hist", 800), ("codec", 500), ("threads", 250), ("conc_enum", 8)],
        "thorough": [("hist", 18000), ("codec", 10000), ("threads", 5000), ("conc_enum", 100)],
    },
    "C14": {
        "quick": [("seq", 700), ("threads", 500), ("abort", 400), ("abort_enum", 10),
                  ("conc_enum", 12)],
        "thorough": [("seq", 12000), ("threads", 10000), ("abort", 8000), ("abort_enum", 80),
                     ("conc_enum", 160)],
    },
}

BATCH_NUMBERS = {"seq": 0, "threads": 1, "abort": 2, "abort_enum": 3, "conc_enum": 4, "hist": 0,
                 "codec": 1, "fail": 2}


def plan(prop, tier):
    return PLANS[prop][tier]


def batch_indices(batch, runs):
    base = BATCH_NUMBERS[batch] * BATCH_BASE
    return list(range(base, base + runs))


def tier_thorough(batch):
    return False


def profile_for(prop, batch, open_findings):
    profile = {"batch": batch, "force": {}, "avoid": []}
    if batch == "seq":
        profile["force"] = {"threads": False, "aborts": False}
    elif batch == "threads":
        profile["force"] = {"threads": True, "aborts": False}
        if prop == "C20":
            profile["force"] = {}
    elif batch in ("abort", "abort_enum"):
        profile["force"] = {"threads": False, "aborts": True}
    if batch == "conc_enum":
        profile["force"] = {"threads": False, "aborts": False, "codecs": False, "n_outer": 1}
    if tier_thorough(batch):
        pass
    if batch == "abort_enum":
        profile["stride"] = 7
        profile["force"].update({"codecs": False, "n_outer": 1})
    profile["avoid_open"] = sorted({k for e in open_findings for k in e.get("avoid_knobs", [])})
    return profile
