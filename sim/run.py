"""Command line driver: seeded batches over a fork pool, self-tests, known
findings, replay files and evidence.

exit 0  property held on everything explored (KNOWN-FINDING lines allowed)
exit 1  VIOLATION property=<id> replay=<path>
exit 2  harness error / failed self-test (never a verdict)
"""
from __future__ import annotations

import argparse
import collections
import faulthandler
import hashlib
import json
import multiprocessing as mp
import multiprocessing.connection
import os
import random
import subprocess
import sys
import time
import traceback

ROOT = os.path.dirname(os.path.dirname(os.path.abspath(__file__)))
REPO = os.environ.get("VERIF_REPO", "/repo")

RUN_TIMEOUT = 900          # seconds per single run before the worker is declared hung
CHUNK = 8                  # runs per worker process (workers are recycled: mashumaro pins builders)


def setup_path():
    if REPO not in sys.path:
        sys.path.insert(0, REPO)
    if ROOT not in sys.path:
        sys.path.insert(0, ROOT)
    import mashumaro
    mf = os.path.realpath(mashumaro.__file__)
    if not mf.startswith(os.path.realpath(REPO) + os.sep):
        print(f"HARNESS-ERROR mashumaro imported from {mf}, not from {REPO}")
        sys.exit(2)


def ensure_deps():
    """jsonschema (metaschema validation for C20) is not in /venv: install it
    from the offline wheelhouse into /verif/.deps when missing."""
    deps = os.path.join(ROOT, ".deps")
    if deps not in sys.path:
        sys.path.append(deps)  # appended: /venv's own packages keep priority
    try:
        import jsonschema  # noqa
        return
    except ImportError:
        pass
    cmd = [sys.executable, "-m", "pip", "install", "-q", "--no-index", "--find-links",
           "/opt/veriftools/wheels", "--target", deps, "jsonschema"]
    p = subprocess.run(cmd, capture_output=True, text=True)
    if p.returncode != 0:
        print("HARNESS-ERROR cannot install jsonschema from the wheelhouse:\n" + p.stderr[-1500:])
        sys.exit(2)
    import importlib
    importlib.invalidate_caches()
    import jsonschema  # noqa


def run_seed(prop, seed, idx):
    h = hashlib.sha256(f"{prop}:{seed}:{idx}".encode()).digest()
    return int.from_bytes(h[:8], "big")


# --------------------------------------------------------------------------
# one run
# --------------------------------------------------------------------------

def run_index(prop, seed, idx, profile, minimise=True):
    from . import props, features
    from . import minimise as M
    rng = random.Random(run_seed(prop, seed, idx))
    case = props.gen_case(prop, rng, profile)
    case["seed"] = seed
    case["index"] = idx
    ex, case, execs = props.execute_search(case)
    case.setdefault("seed", seed)
    case.setdefault("index", idx)
    res = {"idx": idx, "digest": ex.digest, "out_digest": ex.out_digest, "stats": ex.stats,
           "violation": None,
           "nops": len(case["ops"]), "batch": profile.get("batch"), "execs": execs}
    res["shape"] = hashlib.sha256(json.dumps(
        [[o["k"], o.get("m"), bool(o.get("dialect"))] for o in case["ops"]]).encode()).hexdigest()[:12]
    if ex.switch_logs:
        res["interleaving"] = hashlib.sha256(
            json.dumps(sorted(ex.switch_logs.items())).encode()).hexdigest()[:12]
    if idx % 50 == 0:
        res["sample"] = {"idx": idx, "classes": [c["name"] for ch in case["spec"]["chunks"] for c in ch],
                         "ops": [describe_op(o) for o in case["ops"]][:12],
                         "outcomes": ex.outcomes[:12]}
    if ex.violation is not None:
        vio = dict(ex.violation)
        vio["switch_logs"] = {str(k): v for k, v in ex.switch_logs.items()}
        vio["digest"] = ex.digest
        raw_class = vio["class"]
        mcase, mvio, execs = case, vio, 0
        if minimise:
            try:
                mcase, mvio, execs = M.minimise(case, vio, props.run_case,
                                                max_execs=profile.get("min_execs", 400),
                                                max_wall=profile.get("min_wall", 90.0))
            except Exception:
                traceback.print_exc()
        rec = features.record(mcase, mvio)
        replay = dict(mcase)
        replay["violation"] = {k: mvio.get(k) for k in
                               ("class", "op_index", "sub", "op", "got", "ref", "diff_at", "digest",
                                "faulted", "detail")}
        replay["record"] = rec
        replay["minimiser_execs"] = execs
        replay["original"] = {"nops": len(case["ops"]), "class": raw_class,
                              "nclasses": sum(len(ch) for ch in case["spec"]["chunks"])}
        res["violation"] = {"class": mvio["class"], "record": rec, "replay": replay}
    return res


def outcomes_of_case(case):
    """all normalised outcomes of a stored case (for dirty-vs-fresh comparison)"""
    from . import props
    ex = props.EXECUTORS[case["prop"]](case)
    ex.keep_outcomes = True
    ex.run()
    return {"out_digest": ex.out_digest, "outcomes": ex.full_outcomes,
            "violation": ex.violation["class"] if ex.violation else None}


def probe_task(prop, seed, idx, profile):
    """one run, alone, in a fresh process"""
    r = run_index(prop, seed, idx, profile, minimise=False)
    return {"idx": idx, "out_digest": r["out_digest"],
            "violation": r["violation"]["class"] if r["violation"] else None}


def chain_task(prop, seed, first, victim, profile):
    """run `first`, then `victim`, in one fresh process; report the victim"""
    from . import props
    cases = []
    for idx in (first, victim):
        rng = random.Random(run_seed(prop, seed, idx))
        case = props.gen_case(prop, rng, profile)
        case["opts"] = {k: v for k, v in (case.get("opts") or {}).items() if k != "enum"}
        case["seed"], case["index"] = seed, idx
        cases.append(case)
    outcomes_of_case(cases[0])
    dirty = outcomes_of_case(cases[1])
    return {"first": first, "victim": victim, "dirty": dirty, "cases": cases}


def fresh_outcomes_task(case):
    return outcomes_of_case(case)


def describe_op(o):
    if o["k"] == "call":
        s = f"{o['cls']}.{o['m']}"
        if o.get("dialect"):
            s += f"[{o['dialect']}]"
        if o.get("bad"):
            s += f" bad:{o['bad']}"
        if o.get("abort_at"):
            s += f" abort@{o['abort_at']}"
        return s
    if o["k"] == "codec":
        return f"codec#{o.get('id', 'oneshot')} {o['fmt']}.{o['dir']} {json.dumps(o['shape'])}"
    if o["k"] == "conc":
        return {"conc": [[describe_op(x) for x in p] for p in o["progs"]], "sched": o["sched"]["kind"]}
    if o["k"] == "define":
        return f"define chunk {o['chunk']}"
    return {k: v for k, v in o.items() if k in ("k", "type", "builder", "what")}


# --------------------------------------------------------------------------
# fork pool
# --------------------------------------------------------------------------

def _worker(conn, fn, args):
    try:
        faulthandler.enable()
        out = fn(*args)
        conn.send(("ok", out))
    except BaseException:
        conn.send(("err", traceback.format_exc()))
    finally:
        conn.close()
        os._exit(0)


def chunk_task(prop, seed, indices, profile, minimise):
    out = []
    for idx in indices:
        faulthandler.dump_traceback_later(RUN_TIMEOUT, exit=True)
        out.append(run_index(prop, seed, idx, profile, minimise))
    faulthandler.cancel_dump_traceback_later()
    return out


class HarnessFailure(Exception):
    pass


def run_pool(tasks, jobs, deadline=None, on_result=None, task_timeout=None):
    """tasks: list of (fn, args).  Returns list of results in completion order.
    Stops launching new tasks after `deadline` (wall clock)."""
    ctx = mp.get_context("fork")
    pending = collections.deque(tasks)
    active = {}
    results = []
    skipped = 0
    task_timeout = task_timeout or RUN_TIMEOUT * CHUNK
    while pending or active:
        while pending and len(active) < jobs:
            if deadline is not None and time.time() > deadline:
                skipped += len(pending)
                pending.clear()
                break
            fn, args = pending.popleft()
            pc, cc = ctx.Pipe(duplex=False)
            p = ctx.Process(target=_worker, args=(cc, fn, args), daemon=True)
            p.start()
            cc.close()
            active[pc] = (p, time.time(), args)
        if not active:
            break
        ready = mp.connection.wait(list(active), timeout=1.0)
        for conn in ready:
            p, t0, args = active.pop(conn)
            try:
                status, payload = conn.recv()
            except EOFError:
                p.join(5)
                raise HarnessFailure(f"worker died (exit {p.exitcode}) on task {str(args)[:200]}")
            conn.close()
            p.join(5)
            if status != "ok":
                raise HarnessFailure("worker exception:\n" + payload)
            results.append(payload)
            if on_result and on_result(payload) is True:
                # early stop requested: abandon what is still running
                for c2, (p2, _, _) in active.items():
                    p2.kill()
                    p2.join(5)
                    c2.close()
                return results, len(pending)
        now = time.time()
        for conn, (p, t0, args) in list(active.items()):
            if now - t0 > task_timeout:
                p.kill()
                raise HarnessFailure(f"worker exceeded {task_timeout}s on task {str(args)[:200]}")
    return results, skipped


# --------------------------------------------------------------------------
# batches
# --------------------------------------------------------------------------

def load_findings():
    path = os.path.join(ROOT, "known_findings.json")
    if not os.path.exists(path):
        return []
    with open(path) as f:
        return json.load(f)["findings"]


def open_findings(prop):
    return [e for e in load_findings() if e["property"] == prop and e.get("status") == "open"]


def plan(prop, tier):
    from . import plans
    return plans.plan(prop, tier)


def main(argv=None):
    ap = argparse.ArgumentParser()
    ap.add_argument("--property", required=True)
    ap.add_argument("--tier", default=os.environ.get("VERIF_TIER", "quick"))
    ap.add_argument("--seed", type=int, default=None)
    ap.add_argument("--replay")
    ap.add_argument("--jobs", type=int, default=int(os.environ.get("VERIF_JOBS", "16")))
    ap.add_argument("--runs-scale", type=float, default=1.0)
    ap.add_argument("--wall", type=float, default=None, help="wall-clock cap (s) for the search")
    ap.add_argument("--digests", help="internal: print digests for comma separated indices")
    ap.add_argument("--batch", help="internal/debug: only this batch")
    ap.add_argument("--no-selftest", action="store_true")
    ap.add_argument("--no-minimise", action="store_true")
    ap.add_argument("--evidence", default=None)
    args = ap.parse_args(argv)
    if os.environ.get("PYTHONHASHSEED") != "0" and not args.digests and argv is None:
        # one seed = one run: pin the only interpreter-level source of
        # nondeterminism (str hash order) before anything is imported
        env = dict(os.environ)
        env["PYTHONHASHSEED"] = "0"
        sys.stdout.flush()
        os.execve(sys.executable, [sys.executable, "-m", "sim.run"] + sys.argv[1:], env)
    setup_path()
    sys.setrecursionlimit(20000)
    prop = args.property
    if prop == "C20":
        ensure_deps()
    seed = args.seed if args.seed is not None else int(os.environ.get("VERIF_SEED", "0") or 0)
    if args.replay:
        return replay(prop, args.replay)
    if args.digests:
        return print_digests(prop, seed, args)
    from . import checks
    return checks.run_check(prop, args.tier, seed, args)


def print_digests(prop, seed, args):
    from . import plans
    out = {}
    for spec in args.digests.split(","):
        b, idx = spec.split(":")
        profile = plans.profile_for(prop, b, open_findings(prop))
        r = run_index(prop, seed, int(idx), profile, minimise=False)
        out[spec] = [r["digest"], r["violation"]["class"] if r["violation"] else None]
    print("DIGESTS " + json.dumps(out, sort_keys=True))
    return 0


def replay(prop, path):
    from . import props
    with open(path) as f:
        case = json.load(f)
    if case.get("kind") == "chain":
        return replay_chain(prop, case, path)
    want = case.get("violation") or {}
    v = props.run_case(case)
    if v is None:
        print(f"REPLAY property={prop} file={path}: no violation (expected {want.get('class')})")
        return 0
    same_class = v["class"] == want.get("class")
    same = same_class and v.get("digest") == want.get("digest")
    print(f"REPLAY property={prop} class={v['class']} digest={v.get('digest')} "
          f"expected_class={want.get('class')} expected_digest={want.get('digest')} "
          f"{'REPRODUCED' if same else ('SAME-VIOLATION-DIFFERENT-TRACE' if same_class else 'DIFFERENT')}")
    print(json.dumps({"op": v.get("op"), "got": v.get("got"), "ref": v.get("ref"),
                      "diff_at": v.get("diff_at")}, indent=1)[:4000])
    print(f"VIOLATION property={prop} replay={path}")
    return 1 if same_class else 2


def first_outcome_diff(a, b):
    for x, y in zip(a, b):
        if json.dumps(x, sort_keys=True) != json.dumps(y, sort_keys=True):
            return {"op_index": x[0], "sub": x[1], "alone": x[2], "after_other_family": y[2]}
    if len(a) != len(b):
        return {"op_index": None, "alone_ops": len(a), "after_other_family_ops": len(b)}
    return None


def chain_in_fresh_process(cases):
    """[polluter, victim] executed in one fresh process -> victim outcomes"""
    def task(cs):
        for c in cs[:-1]:
            outcomes_of_case(c)
        return outcomes_of_case(cs[-1])
    res, _ = run_pool([(task, (cases,))], 1)
    return res[0]


def replay_chain(prop, data, path):
    cases = data["cases"]
    fresh, _ = run_pool([(fresh_outcomes_task, (cases[-1],))], 1)
    fresh = fresh[0]
    dirty = chain_in_fresh_process(cases)
    diff = first_outcome_diff(fresh["outcomes"], dirty["outcomes"])
    if diff is None:
        print(f"REPLAY property={prop} file={path}: no violation "
              "(the victim family behaves the same alone and after the other family)")
        return 0
    print(f"REPLAY property={prop} class=cross-family-contamination REPRODUCED")
    print(json.dumps(diff, indent=1)[:3000])
    print(f"VIOLATION property={prop} replay={path}")
    return 1


if __name__ == "__main__":
    sys.exit(main())
