"""Family specs: JSON-able descriptions of a set of dataclasses ("class universe"),
their rendering to Python source, and helpers to query them.

A spec is plain JSON so that it can be written to a replay file, shrunk by the
minimiser and rendered twice (system under test / history-free reference twin).

type expr  : ["int"] ["str"] ["date"] ["opt",T] ["list",T] ["dict",T] ["tuple",T..]
             ["union",T..] ["cls",name] ["gen",name,[T..]] ["tv",name]
             ["ann",T,discr] ["nt",name]
value expr : ["i",5] ["s","x"] ["d","2020-01-02"] ["n"] ["l",[v..]] ["m",[[k,v]..]]
             ["t",[v..]] ["o",cls,[[field,v]..]] ["nt",name,[v..]]
discr      : {"field": str|None, "sub": bool, "sup": bool, "tagger": None|"name"|"list"}
"""
from __future__ import annotations

import copy
import json

MIXINS = {
    "Dict": ("DataClassDictMixin", ["to_dict", "from_dict"]),
    "JSON": ("DataClassJSONMixin", ["to_dict", "from_dict", "to_json", "from_json"]),
    "ORJSON": ("DataClassORJSONMixin", ["to_dict", "from_dict", "to_jsonb", "to_json", "from_json"]),
    "MsgPack": ("DataClassMessagePackMixin", ["to_dict", "from_dict", "to_msgpack", "from_msgpack"]),
    "YAML": ("DataClassYAMLMixin", ["to_dict", "from_dict", "to_yaml", "from_yaml"]),
    "TOML": ("DataClassTOMLMixin", ["to_dict", "from_dict", "to_toml", "from_toml"]),
}

CGO = ["ADD_DIALECT_SUPPORT", "ADD_SERIALIZATION_CONTEXT",
       "TO_DICT_ADD_OMIT_NONE_FLAG", "TO_DICT_ADD_BY_ALIAS_FLAG"]

PRELUDE = '''\
import typing
from dataclasses import dataclass, field
from datetime import date, datetime
from typing import (Optional, List, Dict, Union, Tuple, Generic, TypeVar,
                    NamedTuple, ClassVar, Annotated, Literal, Any)
from mashumaro import DataClassDictMixin, pass_through
from mashumaro.config import (BaseConfig, ADD_DIALECT_SUPPORT,
    ADD_SERIALIZATION_CONTEXT, TO_DICT_ADD_OMIT_NONE_FLAG,
    TO_DICT_ADD_BY_ALIAS_FLAG)
from mashumaro.dialect import Dialect
from mashumaro.types import Discriminator, SerializationStrategy
from mashumaro.mixins.json import DataClassJSONMixin
from mashumaro.mixins.orjson import DataClassORJSONMixin
from mashumaro.mixins.msgpack import DataClassMessagePackMixin
from mashumaro.mixins.yaml import DataClassYAMLMixin
from mashumaro.mixins.toml import DataClassTOMLMixin
import orjson

T = TypeVar("T")
U = TypeVar("U")

class Opaque:
    """a type neither mashumaro nor its JSON Schema builder supports"""


def _ser_slash(d: date) -> str:
    return d.strftime("%Y/%m/%d")
def _de_slash(s: str) -> date:
    y, m, dd = str(s).split("/")
    return date(int(y), int(m), int(dd))
def _ser_ord(d: date) -> int:
    return d.toordinal()
def _de_ord(n: int) -> date:
    if type(n) is not int:
        raise ValueError(n)
    return date.fromordinal(n)
class FormattedDate(SerializationStrategy, use_annotations=True):
    def __init__(self, fmt):
        self.fmt = fmt
    def serialize(self, value: date) -> str:
        return value.strftime(self.fmt)
    def deserialize(self, value: str) -> date:
        return datetime.strptime(value, self.fmt).date()
def _mk_dialect(**attrs):
    class FD(Dialect):
        pass
    for k, v in attrs.items():
        setattr(FD, k, v)
    return FD
_READY = [True]
def _flaky_list():
    # a user default_factory that depends on state loaded later (F2: a user
    # callback that fails until the 'heal' event)
    if not _READY[0]:
        raise RuntimeError("settings are not loaded yet")
    return []
def _tagger_name(cls):
    return "v_" + cls.__name__.lower()
def _tagger_list(cls):
    return ["v_" + cls.__name__.lower(), "w_" + cls.__name__.lower()]
'''

DATE_STRATEGIES = {
    "slash": '{"serialize": _ser_slash, "deserialize": _de_slash}',
    "ord": '{"serialize": _ser_ord, "deserialize": _de_ord}',
    "de_only_slash": '{"deserialize": _de_slash}',
    "ser_only_ord": '{"serialize": _ser_ord}',
    "obj_slash": 'FormattedDate("%Y/%m/%d")',
    "obj_dot": 'FormattedDate("%d.%m.%Y")',
}


# --------------------------------------------------------------------------
# rendering
# --------------------------------------------------------------------------

def render_discr(d) -> str:
    parts = []
    if d.get("field") is not None:
        parts.append(f"field={d['field']!r}")
    parts.append(f"include_subtypes={bool(d.get('sub'))}")
    parts.append(f"include_supertypes={bool(d.get('sup'))}")
    if d.get("tagger"):
        parts.append(f"variant_tagger_fn=_tagger_{d['tagger']}")
    return "Discriminator(" + ", ".join(parts) + ")"


def render_type(t, defined=None) -> str:
    """defined: set of names already defined (None = everything defined);
    undefined class names are rendered as string forward references."""
    k = t[0]
    if k in ("int", "str", "date", "bool", "float", "bytes"):
        return k
    if k == "any":
        return "Any"
    if k == "opaque":
        return "Opaque"
    if k == "opt":
        return f"Optional[{render_type(t[1], defined)}]"
    if k == "list":
        return f"List[{render_type(t[1], defined)}]"
    if k == "dict":
        return f"Dict[str, {render_type(t[1], defined)}]"
    if k == "tuple":
        return "Tuple[" + ", ".join(render_type(x, defined) for x in t[1:]) + "]"
    if k == "union":
        return "Union[" + ", ".join(render_type(x, defined) for x in t[1:]) + "]"
    if k in ("cls", "nt"):
        if defined is not None and t[1] not in defined:
            return repr(t[1])
        return t[1]
    if k == "acls":
        return "AUX." + t[1]  # same-named class living in the family's second module
    if k == "gen":
        return f"{t[1]}[" + ", ".join(render_type(x, defined) for x in t[2]) + "]"
    if k == "tv":
        return t[1]
    if k == "ann":
        return f"Annotated[{render_type(t[1], defined)}, {render_discr(t[2])}]"
    raise ValueError(t)


def render_value(v) -> str:
    k = v[0]
    if k == "i":
        return repr(int(v[1]))
    if k == "s":
        return repr(str(v[1]))
    if k == "d":
        y, m, d = v[1].split("-")
        return f"date({int(y)}, {int(m)}, {int(d)})"
    if k == "n":
        return "None"
    if k == "b":
        return f"bytes.fromhex({v[1]!r})"
    if k == "flaky":
        return "[]"
    if k == "l":
        return "[" + ", ".join(render_value(x) for x in v[1]) + "]"
    if k == "t":
        return "(" + "".join(render_value(x) + ", " for x in v[1]) + ")"
    if k == "m":
        return "{" + ", ".join(f"{kk!r}: {render_value(x)}" for kk, x in v[1]) + "}"
    if k == "o":
        return f"{v[1]}(" + ", ".join(f"{n}={render_value(x)}" for n, x in v[2]) + ")"
    if k == "ao":
        return f"AUX.{v[1]}(" + ", ".join(f"{n}={render_value(x)}" for n, x in v[2]) + ")"
    if k == "nt":
        return f"{v[1]}(" + ", ".join(render_value(x) for x in v[2]) + ")"
    raise ValueError(v)


def render_dialect(d, factory=False) -> str:
    if factory:
        # dialect classes made by a factory function all share one qualified name
        args = []
        if d.get("date"):
            args.append(f"serialization_strategy={{date: {DATE_STRATEGIES[d['date']]}}}")
        for opt in ("omit_none", "omit_default", "serialize_by_alias", "namedtuple_as_dict"):
            if d.get(opt) is not None:
                args.append(f"{opt}={bool(d[opt])}")
        if d.get("no_copy") is not None:
            args.append("no_copy_collections=(" + "".join(x + ", " for x in d["no_copy"]) + ")")
        return f"{d['name']} = _mk_dialect(" + ", ".join(args) + ")\n"
    lines = [f"class {d['name']}(Dialect):"]
    if d.get("date"):
        lines.append(f"    serialization_strategy = {{date: {DATE_STRATEGIES[d['date']]}}}")
    for opt in ("omit_none", "omit_default", "serialize_by_alias", "namedtuple_as_dict"):
        if d.get(opt) is not None:
            lines.append(f"    {opt} = {bool(d[opt])}")
    if d.get("no_copy") is not None:
        lines.append("    no_copy_collections = (" + "".join(x + ", " for x in d["no_copy"]) + ")")
    if len(lines) == 1:
        lines.append("    pass")
    return "\n".join(lines) + "\n"


def render_config(cfg, strip_lazy=False, extra_dialect=None) -> list:
    body = []
    if cfg.get("lazy") and not strip_lazy:
        body.append("lazy_compilation = True")
    if cfg.get("cgo"):
        body.append("code_generation_options = [" + ", ".join(cfg["cgo"]) + "]")
    dialect = extra_dialect or cfg.get("dialect")
    if dialect:
        body.append(f"dialect = {dialect}")
    for opt in ("omit_none", "omit_default", "serialize_by_alias", "namedtuple_as_dict",
                "forbid_extra_keys", "sort_keys", "allow_deserialization_not_by_alias",
                "allow_postponed_evaluation"):  # (orjson_options rendered below)
        if cfg.get(opt) is not None:
            body.append(f"{opt} = {bool(cfg[opt])}")
    if cfg.get("aliases"):
        body.append("aliases = " + repr(dict(cfg["aliases"])))
    if cfg.get("discriminator"):
        body.append("discriminator = " + render_discr(cfg["discriminator"]))
    if cfg.get("orjson_options"):
        body.append("orjson_options = " + " | ".join("orjson." + o for o in cfg["orjson_options"]))
    if cfg.get("date"):
        body.append(f"serialization_strategy = {{date: {DATE_STRATEGIES[cfg['date']]}}}")
    if not body:
        body.append("pass")
    return ["class Config(BaseConfig):"] + ["    " + b for b in body]


HOOKS = {
    "pre_ser": ["def __pre_serialize__(self, context=None):",
                "    TRACE.append(('pre_ser', type(self).__name__))",
                "    return self"],
    "post_ser": ["def __post_serialize__(self, d, context=None):",
                 "    TRACE.append(('post_ser', type(self).__name__))",
                 "    return d"],
    "pre_de": ["@classmethod",
               "def __pre_deserialize__(cls, d):",
               "    TRACE.append(('pre_de', cls.__name__))",
               "    return d"],
    "post_de": ["@classmethod",
                "def __post_deserialize__(cls, obj):",
                "    TRACE.append(('post_de', cls.__name__))",
                "    return obj"],
}


class _Raw:
    """repr() is the raw source text (for function names inside metadata dicts)"""

    def __init__(self, text):
        self.text = text

    def __repr__(self):
        return self.text


def render_class(c, defined=None, strip_lazy=False, twin_dialect=None, fam=None) -> str:
    """twin_dialect: [dialect name, [class names]] — the dialect is forced as
    Config.dialect on exactly those classes (the C13 default-dialect twin)."""
    if c.get("kind") == "nt":
        lines = [f"class {c['name']}(NamedTuple):"]
        for f in c["fields"]:
            s = f"    {f['n']}: {render_type(f['t'], defined)}"
            if "d" in f:
                s += f" = {render_value(f['d'])}"
            lines.append(s)
        return "\n".join(lines) + "\n"
    base_args = c.get("base_args") or {}
    bases = [b + ("[" + ", ".join(render_type(x, defined) for x in base_args[b]) + "]"
                  if b in base_args else "") for b in c.get("bases", [])]
    bases += [MIXINS[m][0] for m in c.get("mixins", [])]
    if c.get("tvars") and not base_args:
        bases.append("Generic[" + ", ".join(c["tvars"]) + "]")
    dc_args = "(kw_only=True)" if c.get("kw_only") else ""
    lines = [f"@dataclass{dc_args}", f"class {c['name']}" + (f"({', '.join(bases)})" if bases else "") + ":"]
    body = []
    for k, v in (c.get("cvars") or {}).items():
        body.append(f"{k} = {v!r}")
    for f in c.get("fields", []):
        ts = render_type(f["t"], defined)
        if f.get("literal") is not None:
            ts = f"Literal[{f['literal']!r}]"
        s = f"{f['n']}: {ts}"
        meta = {}
        if f.get("alias"):
            meta["alias"] = f["alias"]
        if f.get("ser"):
            meta["serialize"] = _Raw(f"_ser_{f['ser']}")
            meta["deserialize"] = _Raw(f"_de_{f['ser']}")
        if "d" in f and f["d"][0] == "flaky":
            s += " = field(default_factory=_flaky_list" + (f", metadata={meta!r})" if meta else ")")
        elif "d" in f:
            dv = f["d"]
            if dv[0] in ("l", "m", "o"):
                dflt = f"default_factory=lambda: {render_value(dv)}"
            else:
                dflt = f"default={render_value(dv)}"
            if meta:
                s += f" = field({dflt}, metadata={meta!r})"
            elif dv[0] in ("l", "m", "o"):
                s += f" = field({dflt})"
            else:
                s += f" = {render_value(dv)}"
        elif meta:
            s += f" = field(metadata={meta!r})"
        body.append(s)
    cfg = c.get("cfg")
    extra = None
    if twin_dialect and c["name"] in twin_dialect[1]:
        extra = twin_dialect[0]
        if cfg is None and fam is not None:
            # inherit the effective Config explicitly so that the default
            # dialect can be set on this class alone
            cfg = {k: v for k, v in fam.cfg(c["name"]).items() if k != "discriminator"}
    if cfg is not None:
        body.extend(render_config(cfg, strip_lazy=strip_lazy, extra_dialect=extra))
    for h in c.get("hooks", []):
        body.extend(HOOKS[h])
    if not body:
        body.append("pass")
    lines += ["    " + b for b in body]
    return "\n".join(lines) + "\n"


def render_aux(spec) -> str:
    """source of the family's second module: classes whose bare names equal
    names in the main module (api_v1.Item / api_v2.Item in real projects)"""
    src = PRELUDE
    for c in spec.get("aux", []):
        src += render_class(c)
    return src


def render_prelude(spec) -> str:
    src = PRELUDE
    for d in spec.get("dialects", []):
        src += render_dialect(d, factory=bool(spec.get("factory_dialects")))
    # NamedTuples live in the prelude (never under `from __future__ import
    # annotations`, never a forward reference): they are values, not part of
    # the compilation-order question
    for chunk in spec["chunks"]:
        for c in chunk:
            if c.get("kind") == "nt":
                src += render_class(c)
    return src


def render_chunk(spec, classes, defined, strip_lazy=False, twin_dialect=None) -> str:
    """Source for a list of class specs defined in this order. `defined` is the
    set of names defined before the chunk (mutated)."""
    out = []
    if spec.get("pep563"):
        out.append("from __future__ import annotations\n")
    for c in classes:
        if c.get("kind") == "nt":
            defined.add(c["name"])
            continue
        d = None if spec.get("pep563") else defined
        out.append(render_class(c, d, strip_lazy=strip_lazy, twin_dialect=twin_dialect,
                                fam=Fam(spec) if twin_dialect else None))
        defined.add(c["name"])
    return "\n".join(out)


# --------------------------------------------------------------------------
# queries
# --------------------------------------------------------------------------

class Fam:
    """Read-only view over a spec."""

    def __init__(self, spec):
        self.spec = spec
        self.classes = {}
        self.order = []
        self.chunk_of = {}
        for ci, chunk in enumerate(spec["chunks"]):
            for c in chunk:
                self.classes[c["name"]] = c
                self.order.append(c["name"])
                self.chunk_of[c["name"]] = ci
        self.dialects = {d["name"]: d for d in spec.get("dialects", [])}
        self.aux = {c["name"]: c for c in spec.get("aux", [])}

    def cls(self, name):
        return self.classes[name]

    def family_bases(self, name):
        return [b for b in self.classes[name].get("bases", []) if b in self.classes]

    def mro(self, name):
        out = [name]
        for b in self.family_bases(name):
            for x in self.mro(b):
                if x not in out:
                    out.append(x)
        return out

    def all_fields(self, name):
        """fields in dataclass order: base fields first, overridden in place"""
        res = {}
        for cname in reversed(self.mro(name)):
            for f in self.classes[cname].get("fields", []):
                res[f["n"]] = f
        return list(res.values())

    def mixins(self, name):
        ms = []
        for cname in self.mro(name):
            for m in self.classes[cname].get("mixins", []):
                if m not in ms:
                    ms.append(m)
        return ms

    def is_mixin(self, name):
        return bool(self.mixins(name))

    def methods(self, name):
        out = []
        for m in self.mixins(name):
            for meth in MIXINS[m][1]:
                if meth not in out:
                    out.append(meth)
        return out

    def cfg(self, name):
        """effective Config (nearest in MRO), {} if none"""
        for cname in self.mro(name):
            cfg = self.classes[cname].get("cfg")
            if cfg is not None:
                return cfg
        return {}

    def own_cfg(self, name):
        return self.classes[name].get("cfg") or {}

    def cgo(self, name):
        return self.cfg(name).get("cgo") or []

    def dialect_support(self, name):
        return "ADD_DIALECT_SUPPORT" in self.cgo(name)

    def subclasses(self, name, defined=None):
        """all transitive subclasses, pre-order in definition order"""
        out = []
        for n in self.order:
            if defined is not None and n not in defined:
                continue
            if name in self.family_bases(n):
                out.append(n)
                out.extend(self.subclasses(n, defined))
        return out

    def tag(self, name, discr=None):
        """tag(s) a class carries for a discriminator spec (own namespace only)"""
        c = self.classes[name]
        if discr and discr.get("tagger") == "name":
            return ["v_" + name.lower()]
        if discr and discr.get("tagger") == "list":
            return ["v_" + name.lower(), "w_" + name.lower()]
        field = (discr or {}).get("field") or "t"
        if field in (c.get("cvars") or {}):
            return [c["cvars"][field]]
        for f in c.get("fields", []):
            if f["n"] == field and f.get("literal") is not None:
                return [f["literal"]]
        return []

    def defined_after(self, nchunks):
        s = set()
        for ci, chunk in enumerate(self.spec["chunks"]):
            if ci < nchunks:
                s.update(c["name"] for c in chunk)
        return s

    def type_refs(self, t, out=None):
        if out is None:
            out = set()
        k = t[0]
        if k in ("cls", "nt"):
            out.add(t[1])
        elif k == "gen":
            out.add(t[1])
            for x in t[2]:
                self.type_refs(x, out)
        elif k in ("opt", "list", "dict"):
            self.type_refs(t[1], out)
        elif k in ("tuple", "union"):
            for x in t[1:]:
                self.type_refs(x, out)
        elif k == "ann":
            self.type_refs(t[1], out)
        return out

    def field_refs(self, name):
        out = set()
        for f in self.classes[name].get("fields", []):
            self.type_refs(f["t"], out)
        return out

    def deps(self, name, defined=None):
        """classes transitively reachable from `name` through fields, bases and
        (for discriminated/base-typed positions) subclasses"""
        seen = set()
        stack = [name]
        while stack:
            n = stack.pop()
            if n in seen or n not in self.classes:
                seen.add(n)
                continue
            seen.add(n)
            for m in self.mro(n):
                stack.extend(self.field_refs(m))
                stack.append(m)
            stack.extend(self.subclasses(n, defined))
        return seen

    def edges(self, name, tvmap=None):
        """(class, tvmap) pairs directly nested in `name`'s fields"""
        out = []

        def walk(t):
            k = t[0]
            if k == "tv":
                if tvmap and t[1] in tvmap:
                    walk(tvmap[t[1]])
            elif k == "cls":
                out.append((t[1], None))
            elif k == "gen":
                tv = dict(zip(self.classes[t[1]].get("tvars", []),
                              [self._subst(x, tvmap) for x in t[2]])) if t[1] in self.classes else None
                out.append((t[1], tv))
            elif k in ("opt", "list", "dict", "ann"):
                walk(t[1])
            elif k in ("tuple", "union"):
                for x in t[1:]:
                    walk(x)

        for f in self.all_fields(name):
            walk(f["t"])
        return out

    def _subst(self, t, tvmap):
        if not tvmap:
            return t
        k = t[0]
        if k == "tv":
            return tvmap.get(t[1], t)
        if k in ("opt", "list", "dict"):
            return [k, self._subst(t[1], tvmap)]
        if k in ("tuple", "union"):
            return [k] + [self._subst(x, tvmap) for x in t[1:]]
        if k == "gen":
            return ["gen", t[1], [self._subst(x, tvmap) for x in t[2]]]
        if k == "ann":
            return ["ann", self._subst(t[1], tvmap), t[2]]
        return t

    def dialect_closure(self, name):
        """Classes that receive a call-time dialect given to `name`: those
        reached through chains in which every class enables dialect support.
        Returns (set, ambiguous): ambiguous when some class of the set is also
        reachable through a class without support (a class-level default
        dialect cannot express that)."""
        if name not in self.classes or not self.dialect_support(name):
            return set(), False
        S, all_reach, via_ns = set(), set(), set()
        seen = set()
        stack = [(name, None, True)]
        while stack:
            n, tv, chain = stack.pop()
            key = (n, repr(tv), chain)
            if key in seen or n not in self.classes or self.classes[n].get("kind") == "nt":
                continue
            seen.add(key)
            sup = self.dialect_support(n)
            if chain and sup:
                S.add(n)
            if not chain:
                via_ns.add(n)
            nxt_chain = chain and sup
            for sub in self.subclasses(n):
                stack.append((sub, tv, chain))
            for m, tv2 in self.edges(n, tv):
                stack.append((m, tv2, nxt_chain))
        return S, bool(S & via_ns)

    def unresolved(self, name, defined):
        """class names referenced (transitively) from `name` but not defined"""
        return {d for d in self.deps(name, defined) if d not in defined}


def twin_order(spec, upto_chunks=None):
    """Most eager definition order: stable topological sort so that referenced
    classes come before their users where the graph allows it."""
    fam = Fam(spec)
    names = [n for n in fam.order
             if upto_chunks is None or fam.chunk_of[n] < upto_chunks]
    nameset = set(names)
    placed, out = set(), []
    remaining = list(names)
    while remaining:
        progress = False
        for n in list(remaining):
            need = (set(fam.family_bases(n)) | fam.field_refs(n)) & nameset
            need.discard(n)
            if need <= placed:
                out.append(n)
                placed.add(n)
                remaining.remove(n)
                progress = True
                break
        if not progress:
            # cycle: place the first whose bases are placed
            for n in list(remaining):
                if set(fam.family_bases(n)) & nameset <= placed:
                    out.append(n)
                    placed.add(n)
                    remaining.remove(n)
                    break
            else:  # pragma: no cover
                raise ValueError("unplaceable classes " + repr(remaining))
    return [fam.classes[n] for n in out]


def spec_hash(spec) -> str:
    import hashlib
    return hashlib.sha256(json.dumps(spec, sort_keys=True).encode()).hexdigest()[:16]


def clone(x):
    return copy.deepcopy(x)
