"""Materialise a family spec as a live module, execute operations against it
and normalise what they return."""
from __future__ import annotations

import copy
import dataclasses
import datetime
import json
import re
import sys
import types
import uuid as _uuid

from . import family as F

_counter = [0]
_uuid_state = [0]
_real_uuid4 = _uuid.uuid4


def patch_uuid(start=1):
    """uuid4 names generated helper methods; feed it from a run-local counter so
    that a run is a pure function of its seed."""
    _uuid_state[0] = start

    def fake_uuid4():
        _uuid_state[0] += 1
        return _uuid.UUID(int=(_uuid_state[0] * 0x9E3779B97F4A7C15F39CC0605CEDC835) % (1 << 128))

    _uuid.uuid4 = fake_uuid4


def unpatch_uuid():
    _uuid.uuid4 = _real_uuid4


TRACE_SRC = '''
import threading as _threading
_tl = _threading.local()
class _Trace:
    def append(self, x):
        l = getattr(_tl, "l", None)
        if l is None:
            l = _tl.l = []
        l.append(x)
    def take(self):
        l = getattr(_tl, "l", None) or []
        _tl.l = []
        return l
TRACE = _Trace()
'''


class Universe:
    def __init__(self, spec, mode="sut", upto_chunks=1, twin_dialect=None, ready=None):
        """mode 'sut': chunk 0 defined now, later chunks via define().
        mode 'ref': eager twin — lazy_compilation stripped, all classes of the
        first `upto_chunks` chunks defined at once in the most eager order."""
        self.spec = spec
        self.mode = mode
        self.fam = F.Fam(spec)
        _counter[0] += 1
        self.name = f"vfam_{_counter[0]}"
        self.mod = types.ModuleType(self.name)
        sys.modules[self.name] = self.mod
        self.defined: set = set()
        self.codecs: dict = {}
        self.twin_dialect = twin_dialect
        self.aux = None
        if spec.get("aux"):
            self.aux = types.ModuleType(self.name + "_aux")
            sys.modules[self.aux.__name__] = self.aux
            exec(compile(F.render_aux(spec), self.aux.__name__, "exec", dont_inherit=True),
                 self.aux.__dict__)
            self.mod.AUX = self.aux
        self._exec(F.render_prelude(spec) + TRACE_SRC)
        if spec.get("flaky"):
            # user callbacks fail until the history's 'heal' event
            self.mod._READY[0] = bool(ready) if ready is not None else False
        self.defined.update(n for n, c in self.fam.classes.items() if c.get("kind") == "nt")
        if mode == "ref":
            classes = F.twin_order(spec, upto_chunks)
            self._exec(F.render_chunk(spec, classes, self.defined, strip_lazy=True,
                                      twin_dialect=twin_dialect))
            self.nchunks = upto_chunks
        else:
            self.nchunks = 0
            self.define(0)

    def _exec(self, src):
        code = compile(src, self.name, "exec", dont_inherit=True)
        exec(code, self.mod.__dict__)

    def define(self, chunk_index):
        assert chunk_index == self.nchunks, (chunk_index, self.nchunks)
        classes = self.spec["chunks"][chunk_index]
        self._exec(F.render_chunk(self.spec, classes, self.defined,
                                  twin_dialect=self.twin_dialect))
        self.nchunks += 1

    def dispose(self):
        sys.modules.pop(self.name, None)
        if self.aux is not None:
            sys.modules.pop(self.aux.__name__, None)

    # ------------------------------------------------------------------
    def value(self, v):
        return eval(F.render_value(v), self.mod.__dict__)

    def typ(self, t):
        return eval(F.render_type(t), self.mod.__dict__)

    def take_trace(self):
        return self.mod.TRACE.take()


# --------------------------------------------------------------------------
# inputs
# --------------------------------------------------------------------------

def _bytes_markers(doc, raw):
    """{"__bytes__": hex} -> raw bytes (formats that carry bytes natively) or the
    base64 text mashumaro uses by default"""
    if isinstance(doc, dict):
        if set(doc) == {"__bytes__"} and isinstance(doc["__bytes__"], str):
            try:
                b = bytes.fromhex(doc["__bytes__"])
            except ValueError:
                return doc
            if raw:
                return b
            import base64
            return base64.encodebytes(b).decode()
        return {k: _bytes_markers(v, raw) for k, v in doc.items()}
    if isinstance(doc, list):
        return [_bytes_markers(v, raw) for v in doc]
    return doc


def encode_input(method, inp):
    """`inp` is the JSON-able document; encode it for the format method."""
    inp = _bytes_markers(inp, raw=method in ("from_msgpack", "decode_msgpack"))
    if method in ("from_dict", "decode_basic"):
        return copy.deepcopy(inp)
    if method in ("from_json", "decode_json", "decode_orjson"):
        return json.dumps(inp)
    if method in ("from_msgpack", "decode_msgpack"):
        import msgpack
        return msgpack.packb(inp, use_bin_type=True)
    if method in ("from_yaml", "decode_yaml"):
        import yaml
        return yaml.safe_dump(inp)
    if method in ("from_toml", "decode_toml"):
        import tomli_w
        doc = _strip_none(inp)
        if not isinstance(doc, dict):
            doc = {} if doc is None else {"x": doc}
        return tomli_w.dumps(doc)
    raise ValueError(method)


def _strip_none(doc):
    if isinstance(doc, dict):
        return {k: _strip_none(v) for k, v in doc.items() if v is not None}
    if isinstance(doc, list):
        return [_strip_none(v) for v in doc if v is not None]
    return doc


# --------------------------------------------------------------------------
# normalisation
# --------------------------------------------------------------------------

_MISSING = object()
_MODNAME = re.compile(r"vfam_\d+(_aux)?")
_MODNAME_B = re.compile(rb"vfam_\d+(_aux)?")


def canon(x, _depth=0):
    if _depth > 40:
        return ["deep"]
    t = type(x)
    if x is None:
        return ["n"]
    if t is str:
        return ["str", _MODNAME.sub("M", x)]
    if t in (bool, int):
        return [t.__name__, x]
    if t is float:
        return ["float", repr(x)]
    if t in (bytes, bytearray):
        return [t.__name__, _MODNAME_B.sub(b"M", bytes(x)).hex()]
    if isinstance(x, datetime.date):
        return [t.__name__, x.isoformat()]
    if dataclasses.is_dataclass(x) and not isinstance(x, type):
        fields = []
        for f in dataclasses.fields(x):
            v = getattr(x, f.name, _MISSING)
            fields.append([f.name, ["unset"] if v is _MISSING else canon(v, _depth + 1)])
        return ["obj", t.__name__, fields]
    if isinstance(x, tuple) and hasattr(x, "_fields"):
        return ["ntuple", t.__name__, [canon(v, _depth + 1) for v in x]]
    if isinstance(x, (list, tuple)):
        return [t.__name__, [canon(v, _depth + 1) for v in x]]
    if isinstance(x, dict):
        return [t.__name__, [[canon(k, _depth + 1), canon(v, _depth + 1)] for k, v in x.items()]]
    if isinstance(x, (set, frozenset)):
        return [t.__name__, sorted((canon(v, _depth + 1) for v in x), key=json.dumps)]
    if isinstance(x, type):
        return ["type", x.__name__]
    return ["repr", t.__name__]


def _tname(x):
    if x is None:
        return None
    n = getattr(x, "__name__", None)
    if n is not None:
        return n
    return type(x).__name__


def canon_exc(e, _depth=0):
    d = {"type": type(e).__name__}
    for a in ("field_name", "discriminator_name", "name", "module_name"):
        if hasattr(e, a):
            v = getattr(e, a)
            d[a] = v if isinstance(v, (str, int, type(None))) else _tname(v)
    for a in ("holder_class", "target_type", "variants_type"):
        if hasattr(e, a):
            d[a] = _tname(getattr(e, a))
    if hasattr(e, "extra_keys"):
        try:
            d["extra_keys"] = sorted(map(str, e.extra_keys))
        except Exception:
            d["extra_keys"] = "?"
    if hasattr(e, "discriminator_value"):
        d["discriminator_value"] = canon(e.discriminator_value)
    if hasattr(e, "field_value"):
        d["field_value"] = canon(e.field_value)
    # InvalidFieldValue is raised from a bare `except:` around the field's
    # unpacker, so its context is the inner error (README documents this).
    # Only mashumaro's own errors are followed: whether a KeyError/ValueError
    # from some enclosing handler is still attached as __context__ depends on
    # which internal path ran and is not part of the compared outcome.
    if type(e).__name__ == "InvalidFieldValue" and _depth < 4:
        ctx = e.__cause__ or e.__context__
        if ctx is not None and (type(ctx).__module__ or "").startswith("mashumaro"):
            d["ctx"] = canon_exc(ctx, _depth + 1)
        elif isinstance(ctx, (RecursionError, AttributeError, NameError)):
            d["ctx"] = {"type": type(ctx).__name__}
    return d


def outcome_of(status, payload, trace, unchanged=True):
    if status == "ok":
        o = {"s": "ok", "v": canon(payload)}
    elif status == "budget":
        o = {"s": "budget", "why": str(payload)}
    else:
        o = {"s": "exc", "e": canon_exc(payload)}
    o["hooks"] = [list(x) for x in trace]
    if not unchanged:
        o["mutated_input"] = True
    return o


def same(a, b):
    return json.dumps(a, sort_keys=True) == json.dumps(b, sort_keys=True)
