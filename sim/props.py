"""Per-property workloads: how a case is generated from the PRNG and how it is
executed and judged.  A case is JSON: {"prop", "spec", "ops", "opts"}."""
from __future__ import annotations

from . import engine as E
from . import gen


# --------------------------------------------------------------------------
# C14 — independence of compilation timing, call order and threads
# --------------------------------------------------------------------------

def gen_c14(rng, profile):
    kn = gen.gen_knobs(rng, profile)
    if profile.get("batch") == "abort":
        kn["aborts"] = True
        kn["threads"] = False
    elif profile.get("batch") == "threads":
        kn["threads"] = True
    spec = gen.gen_family(rng, kn)
    ops = gen.gen_history(rng, spec, kn)
    return {"prop": "C14", "spec": spec, "ops": ops, "opts": {"knobs": kn}}


def exec_c14(case):
    return E.Execution(case["spec"], case["ops"])


GENERATORS = {"C14": gen_c14}
EXECUTORS = {"C14": exec_c14}


def gen_case(prop, rng, profile):
    return GENERATORS[prop](rng, profile or {})


def execute(case):
    ex = EXECUTORS[case["prop"]](case)
    ex.run()
    return ex


def run_case(case):
    """-> violation dict (with switch logs attached) or None"""
    ex = execute(case)
    v = ex.violation
    if v is not None:
        v = dict(v)
        v["switch_logs"] = {str(k): sl for k, sl in ex.switch_logs.items()}
        v["digest"] = ex.digest
    return v
