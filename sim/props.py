"""Per-property workloads: how a case is generated from the PRNG and how it is
executed and judged.  A case is JSON: {"prop", "spec", "ops", "opts"}."""
from __future__ import annotations

from . import engine as E
from . import gen


# --------------------------------------------------------------------------
# C14 — independence of compilation timing, call order and threads
# --------------------------------------------------------------------------

def gen_c14(rng, profile):
    kn = gen.gen_knobs(rng, profile)
    if profile.get("batch") == "abort":
        kn["aborts"] = True
        kn["threads"] = False
    elif profile.get("batch") == "threads":
        kn["threads"] = True
    spec = gen.gen_family(rng, kn)
    if profile.get("batch") == "abort_enum":
        kn["aborts"] = False
        ops = gen.gen_history(rng, spec, kn, n_ops=rng.randint(1, 3))
        targets = [i for i, o in enumerate(ops) if o["k"] in ("call", "codec")]
        if targets:
            # the first calls are where compilation happens
            target = targets[0] if rng.random() < 0.7 else rng.choice(targets)
            stride = profile.get("stride", 7)
            return {"prop": "C14", "spec": spec, "ops": ops,
                    "opts": {"knobs": kn, "enum": {"target": target, "stride": stride,
                                                   "max_execs": profile.get("enum_max_execs", 150),
                                                   "offset": rng.randint(0, 10 ** 6)}}}
    else:
        ops = gen.gen_history(rng, spec, kn)
    return {"prop": "C14", "spec": spec, "ops": ops, "opts": {"knobs": kn}}


def exec_c14(case):
    return E.Execution(case["spec"], case["ops"])


# --------------------------------------------------------------------------
# C13 — dialects isolated per call, honoured uniformly by every codec
# --------------------------------------------------------------------------

def gen_c13(rng, profile):
    from . import family as F
    kn = gen.gen_knobs(rng, profile)
    kn.update({"dialect_support": True, "p_dialect_support": 0.85, "cfg_dialect": False,
               "threads": False, "aborts": False, "codecs": False,
               "p_alias": 0.35})
    if kn["lazy"] != "none" and rng.random() < 0.6:
        kn["lazy"] = "none"
    if rng.random() < 0.5:
        kn["cfg_opts"] = True
    if rng.random() < 0.4:
        kn["nt"] = True
    spec = gen.gen_family(rng, kn)
    fam = F.Fam(spec)
    batch = profile.get("batch")
    ops = gen.gen_history(rng, spec, kn, n_ops=rng.randint(4, 12))
    if batch == "codec":
        # interleave codec-equivalence events into the history
        defined_all = fam.defined_after(len(spec["chunks"]))
        cands = [n for n in fam.order if fam.cls(n).get("kind") != "nt"
                 and not fam.cls(n).get("tvars")]
        extra = []
        for _ in range(rng.randint(2, 5)):
            cname = rng.choice(cands)
            shape = ["cls", cname]
            fmt = rng.choice(["json", "orjson", "msgpack", "yaml", "toml"])
            op = {"k": "codec_cmp", "fmt": fmt, "shape": shape}
            if fam.dialects and rng.random() < 0.8:
                op["dd"] = rng.choice(sorted(fam.dialects))
            try:
                v = gen.gen_value(rng, fam, shape, defined_all, kn=dict(kn, sub_in_base=False))
            except gen.Unbuildable:
                continue
            if fmt != "toml" and rng.random() < 0.35:
                op["dir"] = "dec"
                dfmt = fam.dialects[op["dd"]].get("date") if op.get("dd") else None
                doc = gen.to_input(fam, v, {"dialect": None, "tagpick": 0, "date": dfmt or "iso",
                                            "force_date": dfmt})
                op["inp"] = doc
            else:
                op["dir"] = "enc"
                op["val"] = v
            extra.append(op)
        # codec events go after all definitions (they are not about postponement)
        ops = ops + extra
    return {"prop": "C13", "spec": spec, "ops": ops, "opts": {"knobs": kn}}


def oracle_c13(ex, idx, op, out):
    if op["k"] != "codec_cmp" or out["s"] != "ok":
        return None
    pair = ex.last_raw
    if pair is None:
        return None
    a, b = pair["basic"], pair["fmt"]
    if a[0] == "ok" and b[0] == "ok" and a[1] != b[1]:
        return {"class": "codec-dialect-mismatch", "ref": None,
                "detail": {"basic": a[1], "fmt": b[1]},
                "diff_at": E.first_diff(a[1], b[1])}
    return None


def exec_c13(case):
    from . import family as F
    fam = F.Fam(case["spec"])

    def twin_for(core):
        """[dialect, classes] for the default-dialect twin of this op, or None
        when the plain history-free reference is the right oracle."""
        d = core.get("dialect")
        if not d or core["k"] != "call":
            return None
        S, ambiguous = fam.dialect_closure(core["cls"])
        if not S or ambiguous:
            return None
        return [d, sorted(S)]

    return E.Execution(case["spec"], case["ops"], twin_dialect_for=twin_for,
                       extra_oracle=oracle_c13)


GENERATORS = {"C14": gen_c14, "C13": gen_c13}
EXECUTORS = {"C14": exec_c14, "C13": exec_c13}


def gen_case(prop, rng, profile):
    return GENERATORS[prop](rng, profile or {})


def execute(case, ref_cache=None):
    ex = EXECUTORS[case["prop"]](case)
    if ref_cache is not None:
        ex.ref_cache = ref_cache  # same spec: references are history-free by construction
    ex.run()
    return ex


def execute_search(case):
    """Execute a case.  Cases carrying an enumeration request (F4 abort at every
    stride-th traced line of one operation) are expanded here; the first failing
    expansion is returned as an ordinary, directly replayable case."""
    enum = (case.get("opts") or {}).get("enum")
    if not enum:
        return execute(case), case, 1
    target, stride = enum["target"], enum["stride"]
    probe = dict(case)
    probe["opts"] = {}
    ex0 = execute(probe)
    if ex0.violation is not None:
        return ex0, probe, 1
    nsteps = ex0.op_steps.get(target, 0)
    execs = 1
    total = ex0
    stride = max(stride, nsteps // enum.get("max_execs", 150))
    total.stats["enum_stride_max"] = stride
    for k in range(1 + enum.get("offset", 0) % stride, nsteps + 1, stride):
        c = dict(probe)
        ops = [dict(o) for o in case["ops"]]
        ops[target]["abort_at"] = k
        c["ops"] = ops
        ex = execute(c, ref_cache=ex0.ref_cache)
        execs += 1
        merge_stats(total.stats, ex.stats)
        total.digest = (total.digest * 1000003 + ex.digest) % ((1 << 61) - 1)
        if ex.violation is not None:
            ex.stats = total.stats
            return ex, c, execs
    return total, probe, execs


def merge_stats(a, b):
    for k, v in b.items():
        if isinstance(v, int):
            a[k] = a.get(k, 0) + v
        elif isinstance(v, dict):
            d = a.setdefault(k, {})
            for kk, vv in v.items():
                d[kk] = d.get(kk, 0) + vv


def run_case(case):
    """-> violation dict (with switch logs attached) or None"""
    ex = execute(case)
    v = ex.violation
    if v is not None:
        v = dict(v)
        v["switch_logs"] = {str(k): sl for k, sl in ex.switch_logs.items()}
        v["digest"] = ex.digest
    return v
