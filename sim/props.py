"""Per-property workloads: how a case is generated from the PRNG and how it is
executed and judged.  A case is JSON: {"prop", "spec", "ops", "opts"}."""
from __future__ import annotations

import typing

from . import engine as E
from . import gen


# --------------------------------------------------------------------------
# C14 — independence of compilation timing, call order and threads
# --------------------------------------------------------------------------

def registry_codec_case(rng, spec, kn, mode):
    """Focus: a long-lived decoder over Annotated[root, Discriminator(field)]
    created and used *before* the last variant of the hierarchy is defined; the
    tag of the late variant then forces a re-walk of the registry while the
    decoder's per-variant holders are being rebuilt.  mode 'abort': that decode
    is the enumeration target, followed by retries; mode 'threads': it races
    with a decode of an already known tag through the same decoder."""
    from . import family as F
    fam = F.Fam(spec)
    roots = [n for n in fam.order if any(fam.tag(v) for v in fam.subclasses(n))
             and not fam.own_cfg(n).get("discriminator") and not fam.cls(n).get("tvars")]
    if not roots:
        return None
    root = rng.choice(roots)
    leaves = [v for v in fam.subclasses(root) if not fam.subclasses(v) and fam.tag(v)
              and not any(v in fam.field_refs(m) for m in fam.order)]
    early = [v for v in fam.subclasses(root) if fam.tag(v) and v not in leaves[-1:]]
    if not leaves or not early:
        return None
    late = leaves[-1]
    spec = F.clone(spec)
    for ch in spec["chunks"]:
        ch[:] = [c for c in ch if c["name"] != late]
    spec["chunks"] = [[c for ch in spec["chunks"] for c in ch], [fam.cls(late)]]
    fam = F.Fam(spec)
    d = {"field": "t", "sub": True, "sup": False, "tagger": None}
    shape = ["ann", ["cls", root], d]
    fmt = rng.choice(["basic", "basic", "orjson", "msgpack"])

    def dec(variant, defined):
        v = gen.gen_value(rng, fam, ["cls", variant], defined, kn=dict(kn, sub_in_base=False))
        if v[1] != variant:
            v = ["o", variant, []]
        return {"k": "codec", "id": 0, "fmt": fmt, "dir": "dec", "shape": shape,
                "inp": gen.to_input(fam, v, {"dialect": None, "tagpick": 0}, discr=d)}

    d0 = fam.defined_after(1)
    d1 = fam.defined_after(2)
    try:
        first = dec(rng.choice(early), d0)
        known = dec(rng.choice(early), d1)
        new = dec(late, d1)
    except (gen.Unbuildable, KeyError):
        return None
    if mode == "abort":
        ops = [first, {"k": "define", "chunk": 1}, new, dict(new), dict(known), dict(first)]
        return spec, ops, 2
    conc = {"k": "conc", "progs": [[new], [known]], "sched": gen.gen_schedule(rng),
            "sseed": rng.getrandbits(32)}
    ops = [first, {"k": "define", "chunk": 1}, conc, dict(new), dict(known), dict(first)]
    return spec, ops, 2


def gen_c14(rng, profile):
    kn = gen.gen_knobs(rng, profile)
    if profile.get("batch") in ("conc_enum", "threads") and rng.random() < 0.4:
        # focus: several dialects compiled for one class at the same moment
        kn.update({"dialect_support": True, "p_dialect_support": 0.9,
                   "distinct_dialects": True, "cfg_dialect": False})
    if profile.get("batch") in ("abort_enum", "threads", "abort", "conc_enum") and rng.random() < 0.4:
        # focus: tag registries and on-demand variant compilation, the state
        # with the narrowest windows
        kn.update({"discr_ann": True, "deep_variants": True, "nofield": rng.random() < 0.2,
                   "p_plain": rng.choice([0.3, 0.6]), "bad_inputs": False,
                   "subclass_values": False, "sub_in_base": False})
    if profile.get("batch") == "abort":
        kn["aborts"] = True
        kn["threads"] = False
    elif profile.get("batch") == "threads":
        kn["threads"] = True
    spec = gen.gen_family(rng, kn)
    if profile.get("batch") in ("conc_enum", "abort_enum") and kn.get("deep_variants") \
            and rng.random() < 0.5:
        rc = registry_codec_case(rng, spec, kn,
                                 "abort" if profile["batch"] == "abort_enum" else "threads")
        if rc is not None:
            spec2, ops, target = rc
            if profile["batch"] == "abort_enum":
                enum = {"target": target, "stride": profile.get("stride", 7),
                        "max_execs": profile.get("enum_max_execs", 40),
                        "max_wall": profile.get("enum_max_wall", 75.0),
                        "offset": rng.randint(0, 10 ** 6)}
            else:
                enum = {"mode": "preempt", "target": target,
                        "cap_gen": profile.get("cap_gen", 25) * 2,
                        "cap_gstate": profile.get("cap_gstate", 40),
                        "max_wall": profile.get("enum_max_wall", 75.0)}
            return {"prop": "C14", "spec": spec2, "ops": ops, "opts": {"knobs": kn, "enum": enum}}
    if profile.get("batch") == "conc_enum":
        from . import family as F
        fam = F.Fam(spec)
        kn["aborts"] = False
        kn["threads"] = False
        ops = gen.gen_history(rng, spec, kn, n_ops=rng.randint(0, 2))
        defined = fam.defined_after(len(spec["chunks"]))
        sweep_start = len(ops)
        for i, o in enumerate(ops):
            if o["k"] == "define":
                sweep_start = None
        classes = gen.callable_classes(fam, defined)
        if classes:
            kn2 = dict(kn, codecs=False, p_same_call=0.7)
            conc = gen.gen_conc(rng, fam, kn2, defined)
            conc["progs"] = conc["progs"][:2]
            # the batch goes after all definitions and before the final sweep,
            # followed by the same calls again, one by one
            pos = max([i for i, o in enumerate(ops) if o["k"] == "define"], default=-1) + 1
            ops[pos:pos] = [conc] + [dict(o) for prog in conc["progs"] for o in prog]
            return {"prop": "C14", "spec": spec, "ops": ops,
                    "opts": {"knobs": kn, "enum": {"mode": "preempt", "target": pos,
                                                   "cap_gen": profile.get("cap_gen", 25),
                                                   "cap_gstate": profile.get("cap_gstate", 40),
                        "max_wall": profile.get("enum_max_wall", 75.0)}}}
        return {"prop": "C14", "spec": spec, "ops": ops, "opts": {"knobs": kn}}
    if profile.get("batch") == "abort_enum":
        kn["aborts"] = False
        ops = gen.gen_history(rng, spec, kn, n_ops=rng.randint(1, 3))
        targets = [i for i, o in enumerate(ops) if o["k"] in ("call", "codec")]
        decs = [i for i in targets if "inp" in ops[i]]
        if kn.get("deep_variants") and decs:
            from . import family as F
            fam_ = F.Fam(spec)
            disc = [i for i in decs if ops[i]["k"] == "call" and (
                fam_.own_cfg(ops[i]["cls"]).get("discriminator") or any(
                    t[0] == "ann" for f in fam_.all_fields(ops[i]["cls"])
                    for t in gen._types_in(f["t"])))]
            targets = disc or decs
        if targets:
            # the first calls are where compilation happens
            target = targets[0] if rng.random() < 0.7 else rng.choice(targets)
            stride = profile.get("stride", 7)
            # the interrupted call is retried unchanged right afterwards
            ops.insert(target + 1, dict(ops[target]))
            return {"prop": "C14", "spec": spec, "ops": ops,
                    "opts": {"knobs": kn, "enum": {"target": target, "stride": stride,
                                                   "max_execs": profile.get("enum_max_execs", 40),
                                                   "max_wall": profile.get("enum_max_wall", 75.0),
                                                   "offset": rng.randint(0, 10 ** 6)}}}
    else:
        ops = gen.gen_history(rng, spec, kn)
    return {"prop": "C14", "spec": spec, "ops": ops, "opts": {"knobs": kn}}


def exec_c14(case):
    return E.Execution(case["spec"], case["ops"])


# --------------------------------------------------------------------------
# C13 — dialects isolated per call, honoured uniformly by every codec
# --------------------------------------------------------------------------

def gen_c13(rng, profile):
    from . import family as F
    if profile.get("batch") == "conc_enum":
        # preemption-bound-1 enumeration of two first dialect calls on one class
        prof = dict(profile)
        prof["force"] = dict(profile.get("force") or {}, dialect_support=True,
                             p_dialect_support=0.9, distinct_dialects=True, cfg_dialect=False)
        case = gen_c14(rng, prof)
        case["prop"] = "C13"
        return case
    kn = gen.gen_knobs(rng, profile)
    kn.update({"dialect_support": True, "p_dialect_support": 0.85, "cfg_dialect": False,
               "threads": profile.get("batch") == "threads", "aborts": False, "codecs": False,
               "p_alias": 0.35})
    if profile.get("batch") == "codec":
        # bytes are a native type of MessagePack: "the same logical document"
        # cannot be compared textually there, so the codec clause leaves them out
        kn["bytes_fields"] = False
    if kn["lazy"] != "none" and rng.random() < 0.6:
        kn["lazy"] = "none"
    if rng.random() < 0.5:
        kn["cfg_opts"] = True
    if rng.random() < 0.4:
        kn["nt"] = True
    spec = gen.gen_family(rng, kn)
    fam = F.Fam(spec)
    batch = profile.get("batch")
    ops = gen.gen_history(rng, spec, kn, n_ops=rng.randint(4, 12))
    if batch == "codec":
        # interleave codec-equivalence events into the history
        defined_all = fam.defined_after(len(spec["chunks"]))
        cands = [n for n in fam.order if fam.cls(n).get("kind") != "nt"
                 and not fam.cls(n).get("tvars")]
        extra = []
        for _ in range(rng.randint(2, 5)):
            cname = rng.choice(cands)
            shape = ["cls", cname]
            fmt = rng.choice(["json", "orjson", "msgpack", "yaml", "toml"])
            op = {"k": "codec_cmp", "fmt": fmt, "shape": shape}
            if fam.dialects and rng.random() < 0.8:
                op["dd"] = rng.choice(sorted(fam.dialects))
            try:
                v = gen.gen_value(rng, fam, shape, defined_all, kn=dict(kn, sub_in_base=False))
            except gen.Unbuildable:
                continue
            if fmt != "toml" and rng.random() < 0.35:
                op["dir"] = "dec"
                dfmt = fam.dialects[op["dd"]].get("date") if op.get("dd") else None
                doc = gen.to_input(fam, v, {"dialect": None, "tagpick": 0, "date": dfmt or "iso",
                                            "force_date": dfmt})
                op["inp"] = doc
            else:
                op["dir"] = "enc"
                op["val"] = v
            extra.append(op)
        # codec events go after all definitions (they are not about postponement)
        ops = ops + extra
    return {"prop": "C13", "spec": spec, "ops": ops, "opts": {"knobs": kn}}


def oracle_c13(ex, idx, op, out):
    if op["k"] != "codec_cmp" or out["s"] != "ok":
        return None
    pair = ex.last_raw
    if pair is None:
        return None
    a, b = pair["basic"], pair["fmt"]
    if a[0] == "ok" and b[0] == "ok" and a[1] != b[1]:
        return {"class": "codec-dialect-mismatch", "ref": None,
                "detail": {"basic": a[1], "fmt": b[1]},
                "diff_at": E.first_diff(a[1], b[1])}
    return None


def exec_c13(case):
    from . import family as F
    fam = F.Fam(case["spec"])

    def twin_for(core):
        """[dialect, classes] for the default-dialect twin of this op, or None
        when the plain history-free reference is the right oracle."""
        d = core.get("dialect")
        if not d or core["k"] != "call":
            return None
        S, ambiguous = fam.dialect_closure(core["cls"])
        if not S or ambiguous:
            return None
        if case["spec"].get("flaky") and fam.dialects[d].get("omit_default"):
            # as a class default this dialect would call the (still failing) user
            # default_factory while the twin is being *defined*
            return None
        return [d, sorted(S)]

    return E.Execution(case["spec"], case["ops"], twin_dialect_for=twin_for,
                       extra_oracle=oracle_c13)


GENERATORS = {"C14": gen_c14, "C13": gen_c13}
EXECUTORS = {"C14": exec_c14, "C13": exec_c13}


def gen_case(prop, rng, profile):
    return GENERATORS[prop](rng, profile or {})


def execute(case, ref_cache=None):
    ex = EXECUTORS[case["prop"]](case)
    if ref_cache is not None:
        ex.ref_cache = ref_cache  # same spec: references are history-free by construction
    ex.run()
    return ex


def execute_search(case):
    """Execute a case.  Cases carrying an enumeration request (F4 abort at every
    stride-th traced line of one operation) are expanded here; the first failing
    expansion is returned as an ordinary, directly replayable case."""
    enum = (case.get("opts") or {}).get("enum")
    if not enum:
        return execute(case), case, 1
    import time as _time
    t_end = _time.time() + enum.get("max_wall", 75.0)
    if enum.get("mode") == "preempt":
        return execute_preempt_enum(case, enum, t_end)
    target, stride = enum["target"], enum["stride"]
    probe = dict(case)
    probe["opts"] = {}
    ex0 = execute(probe)
    if ex0.violation is not None:
        return ex0, probe, 1
    nsteps = ex0.op_steps.get(target, 0)
    execs = 1
    total = ex0
    # pass 1: every generated-code line of the target op (these are the points
    # between two statements of generated code — where registry / cache / stub
    # updates are half done), exhaustively
    ngen = ex0.op_gen_steps.get(target, 0)
    total.stats["enum_gen_lines"] = total.stats.get("enum_gen_lines", 0) + min(ngen, 80)
    for k in range(1, min(ngen, 80) + 1):
        if _time.time() > t_end:
            total.stats["enum_cut_by_wall"] = total.stats.get("enum_cut_by_wall", 0) + 1
            break
        c = dict(probe)
        ops = [dict(o) for o in case["ops"]]
        ops[target]["abort_gen"] = k
        c["ops"] = ops
        ex = execute(c, ref_cache=ex0.ref_cache)
        execs += 1
        merge_stats(total.stats, ex.stats)
        total.digest = (total.digest * 1000003 + ex.digest) % ((1 << 61) - 1)
        if ex.violation is not None:
            ex.stats = total.stats
            return ex, c, execs
    # pass 1b: every line of functions that touch module-level mutable state
    # (process-wide caches and counters), exhaustively up to a cap
    gsteps = ex0.op_gsteps.get(target, [])[:100]
    total.stats["enum_gstate_lines"] = total.stats.get("enum_gstate_lines", 0) + len(gsteps)
    for k in gsteps:
        if _time.time() > t_end:
            break
        c = dict(probe)
        ops = [dict(o) for o in case["ops"]]
        ops[target]["abort_at"] = k
        c["ops"] = ops
        ex = execute(c, ref_cache=ex0.ref_cache)
        execs += 1
        merge_stats(total.stats, ex.stats)
        total.digest = (total.digest * 1000003 + ex.digest) % ((1 << 61) - 1)
        if ex.violation is not None:
            ex.stats = total.stats
            return ex, c, execs
    # pass 2: every stride-th traced line (builder code included)
    stride = max(stride, nsteps // enum.get("max_execs", 150))
    total.stats["enum_stride_max"] = stride
    for k in range(1 + enum.get("offset", 0) % stride, nsteps + 1, stride):
        if _time.time() > t_end:
            break
        c = dict(probe)
        ops = [dict(o) for o in case["ops"]]
        ops[target]["abort_at"] = k
        c["ops"] = ops
        ex = execute(c, ref_cache=ex0.ref_cache)
        execs += 1
        merge_stats(total.stats, ex.stats)
        total.digest = (total.digest * 1000003 + ex.digest) % ((1 << 61) - 1)
        if ex.violation is not None:
            ex.stats = total.stats
            return ex, c, execs
    return total, probe, execs


def execute_preempt_enum(case, enum, t_end=None):
    """Schedule enumeration with preemption bound 1: for one concurrent batch,
    every thread in turn runs first and is pre-empted once at its k-th
    generated-code line (k = 1..cap) and at its k-th line inside a function that
    touches module-level mutable state; the other threads run to completion in
    between.  The first failing schedule is returned as an ordinary case."""
    target = enum["target"]
    probe = dict(case)
    probe["opts"] = {}
    ex0 = execute(probe)
    if ex0.violation is not None:
        return ex0, probe, 1
    total, execs = ex0, 1
    nthreads = len(case["ops"][target]["progs"])
    for what, cap in (("gstate", enum.get("cap_gstate", 80)), ("gen", enum.get("cap_gen", 60))):
        for tid in range(nthreads):
            for at in range(1, cap + 1):
                if t_end is not None and __import__("time").time() > t_end:
                    total.stats["enum_cut_by_wall"] = total.stats.get("enum_cut_by_wall", 0) + 1
                    return total, probe, execs
                c = dict(probe)
                ops = [dict(o) for o in case["ops"]]
                ops[target] = dict(ops[target])
                ops[target]["sched"] = {"kind": "single", "tid": tid, "at": at, "what": what}
                c["ops"] = ops
                ex = execute(c, ref_cache=ex0.ref_cache)
                execs += 1
                merge_stats(total.stats, ex.stats)
                total.stats["enum_preempt_points"] = total.stats.get("enum_preempt_points", 0) + 1
                total.digest = (total.digest * 1000003 + ex.digest) % ((1 << 61) - 1)
                if ex.violation is not None:
                    ex.stats = total.stats
                    return ex, c, execs
                if not ex.single_fired.get(target):
                    break  # the thread has fewer such lines: nothing further to try
    return total, probe, execs


def merge_stats(a, b):
    for k, v in b.items():
        if isinstance(v, int):
            a[k] = a.get(k, 0) + v
        elif isinstance(v, dict):
            d = a.setdefault(k, {})
            for kk, vv in v.items():
                d[kk] = d.get(kk, 0) + vv


def run_case(case):
    """-> violation dict (with switch logs attached) or None"""
    ex = execute(case)
    v = ex.violation
    if v is not None:
        v = dict(v)
        v["switch_logs"] = {str(k): sl for k, sl in ex.switch_logs.items()}
        v["digest"] = ex.digest
    return v


# --------------------------------------------------------------------------
# C12 — discriminated unions pick exactly the tagged class in any definition order
# --------------------------------------------------------------------------

def gen_c12(rng, profile):
    from . import family as F
    r = rng
    fmt_mixin = r.choice(["Dict", "Dict", "JSON", "ORJSON", "MsgPack", "YAML"])
    root_plain = r.random() < 0.35
    lazy_p = r.choice([0.0, 0.0, 0.5])
    style = r.choice(["cvar", "cvar", "literal"])
    dialects = [{"name": "D1", "date": "slash"}, {"name": "D2", "omit_none": True}]
    dsup = r.random() < 0.3
    n = [0]

    def name(p):
        n[0] += 1
        return f"{p}{n[0]}"

    def cfg(extra=None, mixin=True):
        c = {}
        if r.random() < lazy_p:
            c["lazy"] = True
        if dsup:
            c["cgo"] = ["ADD_DIALECT_SUPPORT"]
        if extra:
            c.update(extra)
        return c or None

    root = name("R")
    rc = {"name": root, "mixins": [] if root_plain else [fmt_mixin],
          "fields": [{"n": "a", "t": ["int"]}]}
    root_has_default = False
    if r.random() < 0.3:
        rc["fields"].append({"n": "a2", "t": ["int"], "d": ["i", 0]})
        root_has_default = True
    cfg_discr = None
    if not root_plain and r.random() < 0.5:
        cfg_discr = {"field": "t", "sub": True, "sup": False,
                     "tagger": r.choice([None, None, None, "name", "list"])}
    c0 = cfg({"discriminator": cfg_discr} if cfg_discr else None)
    if c0:
        rc["cfg"] = c0
    if style == "cvar" and r.random() < 0.5:
        rc["cvars"] = {"t": root.lower()}
    hier = [rc]
    has_default = {root: root_has_default}

    def new_variant():
        plain_parents = [c for c in hier if "u" not in (c.get("cvars") or {})
                         and c["name"] not in nested]
        parent = r.choice(plain_parents)["name"] if r.random() < 0.45 else root
        vn = name("V")
        vc = {"name": vn, "bases": [parent], "mixins": [], "fields": []}
        dflt = has_default[parent] or style == "literal"
        for i in range(r.choice([0, 1, 1, 2])):
            f = {"n": f"{vn.lower()}_{i}", "t": ["int"]}
            if dflt or r.random() < 0.5:
                f["d"] = ["i", r.choice([0, 7])]
                dflt = True
            vc["fields"].append(f)
        if style == "literal":
            vc["fields"].insert(0, {"n": "t", "t": ["str"], "literal": vn.lower(),
                                    "d": ["s", vn.lower()]})
            dflt = True
        elif r.random() < 0.85:
            vc["cvars"] = {"t": vn.lower()}
        has_default[vn] = dflt
        hier.append(vc)
        return vc

    def new_holder():
        hn = name("H")
        okb = [c["name"] for c in hier if c["name"] not in nested
               and "u" not in (c.get("cvars") or {})]
        base = r.choice(okb) if r.random() < 0.25 else root
        if style == "cvar" and not nested and r.random() < 0.35:
            d = {"field": None, "sub": True, "sup": r.random() < 0.7, "tagger": None}
        else:
            d = {"field": "t", "sub": r.random() < 0.9, "sup": r.random() < 0.35,
                 "tagger": r.choice([None, None, None, "name", "list"])}
            if not d["sub"]:
                d["sup"] = True
        t = ["ann", ["cls", base], d]
        if cfg_discr:
            # a class-level discriminator and an Annotated one on the same
            # hierarchy compose in a way the statement does not define: nest the
            # root plainly and let its own Config dispatch
            t = ["cls", root]
        wrap = r.random()
        if wrap < 0.2:
            t = ["list", t]
        elif wrap < 0.3:
            t = ["dict", t]
        elif wrap < 0.4:
            t = ["opt", t]
        hc = {"name": hn, "mixins": [r.choice([fmt_mixin, "Dict"])],
              "fields": [{"n": "f", "t": t}]}
        if not cfg_discr and len(hier) > 1 and r.random() < 0.3:
            # a second discriminated position on the same holder, same settings,
            # other base: registries of two dispatchers must stay separate
            other = r.choice([c["name"] for c in hier if c["name"] != base
                              and c["name"] not in nested
                              and "u" not in (c.get("cvars") or {})] or [root])
            d2 = dict(d)
            if d2.get("field") and r.random() < 0.5:
                d2["tagger"] = r.choice([t_ for t_ in (None, "name", "list") if t_ != d.get("tagger")])
            hc["fields"].append({"n": "g", "t": ["opt", ["ann", ["cls", other], d2]],
                                 "d": ["n"]})
        c = cfg()
        if c:
            hc["cfg"] = c
        return hc

    nested = {}   # second-level: variant -> list of its 'u'-tagged sub-variants

    def new_subvariant(parent):
        wn = name("W")
        wc = {"name": wn, "bases": [parent], "mixins": [], "cvars": {"u": wn.lower()},
              "fields": [{"n": f"{wn.lower()}_0", "t": ["int"], "d": ["i", 3]}]}
        has_default[wn] = True
        nested[parent].append(wn)
        hier.append(wc)
        return wc

    chunks = [[rc]]
    first = chunks[0]
    for _ in range(r.randint(0, 2)):
        first.append(new_variant())
    if style == "cvar" and len(hier) > 1 and r.random() < 0.25:
        # a variant that is itself a dispatcher on another field: the outer
        # discriminator selects it by 't', its own Config discriminator then
        # selects one of its subclasses by 'u'
        vcands = [c for c in hier[1:] if (c.get("cvars") or {}).get("t")]
        if vcands:
            vc2 = r.choice(vcands)
            c2 = dict(vc2.get("cfg") or {})
            c2["discriminator"] = {"field": "u", "sub": True, "sup": False, "tagger": None}
            if dsup:
                c2.setdefault("cgo", ["ADD_DIALECT_SUPPORT"])
            vc2["cfg"] = c2
            nested[vc2["name"]] = []
            first.append(new_subvariant(vc2["name"]))
    holders = []
    if r.random() < 0.7:
        h = new_holder()
        holders.append(h)
        first.append(h)
    for _ in range(r.randint(2, 5)):
        ch = []
        for _ in range(r.randint(1, 2)):
            if nested and r.random() < 0.4:
                ch.append(new_subvariant(r.choice(sorted(nested))))
            elif r.random() < 0.75:
                ch.append(new_variant())
            else:
                h = new_holder()
                holders.append(h)
                ch.append(h)
        chunks.append(ch)
    spec = {"pep563": r.random() < 0.3, "dialects": dialects, "chunks": chunks}
    fam = F.Fam(spec)
    all_variants = [c["name"] for c in hier]

    def payload(defined, discr, base):
        """(document, note) for a decode through discriminator `discr` of `base`"""
        x = r.random()
        pool_defined = [v for v in all_variants if v in defined]
        pool_future = [v for v in all_variants if v not in defined]
        if x < 0.65 or not pool_future:
            target = r.choice(pool_defined)
        else:
            target = r.choice(pool_future)
        doc = {}
        for f in fam.all_fields(target):
            if f.get("literal") is not None:
                continue
            if "d" in f and r.random() < 0.5:
                continue
            doc[f["n"]] = r.choice([0, 1, 2, 5])
        tags = fam.tag(target, discr if discr.get("field") else None)
        if "u" in (fam.cls(target).get("cvars") or {}):
            # second level: outer tag of the dispatching parent, inner tag of the target
            parent = fam.family_bases(target)[0]
            tags = fam.tag(parent, discr if discr.get("field") else None)
            w = r.random()
            if w < 0.8:
                doc["u"] = fam.cls(target)["cvars"]["u"]
            elif w < 0.9:
                doc["u"] = "nope"
        if discr.get("field"):
            y = r.random()
            if y < 0.1:
                pass
            elif y < 0.2:
                doc[discr["field"]] = "nope"
            elif tags:
                doc[discr["field"]] = r.choice(tags)
            else:
                doc[discr["field"]] = target.lower()
        z = r.random()
        if z < 0.08 and doc:
            k = r.choice(sorted(doc))
            if k != discr.get("field"):
                doc[k] = "x"
        elif z < 0.14:
            doc.pop("a", None)
        return doc

    def wrap_payload(t, doc):
        if t[0] == "list":
            return [doc]
        if t[0] == "dict":
            return {"k": doc}
        return doc

    ops = []
    codecs = []
    cur = 1
    defined = fam.defined_after(cur)
    nops = r.randint(6, 18)
    dec_method = {"Dict": "from_dict", "JSON": "from_json", "ORJSON": "from_json",
                  "MsgPack": "from_msgpack", "YAML": "from_yaml"}

    def decode_event():
        hs = [h for h in holders if h["name"] in defined]
        kinds = []
        if cfg_discr:
            kinds += ["cfg"] * 3
        if hs:
            kinds += ["holder"] * 4
        kinds += ["codec"] * 2
        kind = r.choice(kinds)
        if kind == "cfg":
            m = r.choice(fam.methods(root))
            m = m if m.startswith("from_") else "from_dict"
            op = {"k": "call", "cls": root, "m": m,
                  "inp": payload(defined, cfg_discr, root), "via": "cfg"}
        elif kind == "holder":
            h = r.choice(hs)
            t = h["fields"][0]["t"]
            ann = t if t[0] in ("ann", "cls") else t[1]
            hd, hb = (ann[2], ann[1][1]) if ann[0] == "ann" else (cfg_discr, ann[1])
            ms = [m for m in fam.methods(h["name"]) if m.startswith("from_")]
            op = {"k": "call", "cls": h["name"], "m": r.choice(ms),
                  "inp": {"f": wrap_payload(t, payload(defined, hd, hb))},
                  "via": "holder"}
            if len(h["fields"]) > 1 and r.random() < 0.7:
                g = h["fields"][1]["t"][1]
                if g[1][1] in defined:
                    op["inp"]["g"] = payload(defined, g[2], g[1][1])
        else:
            if codecs and r.random() < 0.6:
                base = r.choice(codecs)
                op = {k: base[k] for k in ("k", "id", "fmt", "dir", "shape")}
            else:
                okv = [v for v in all_variants if v in defined and v not in nested
                       and "u" not in (fam.cls(v).get("cvars") or {})]
                b = r.choice(okv) if r.random() < 0.2 and okv else root
                if style == "cvar" and not nested and r.random() < 0.3:
                    d = {"field": None, "sub": True, "sup": r.random() < 0.7, "tagger": None}
                else:
                    d = {"field": "t", "sub": True, "sup": r.random() < 0.35,
                         "tagger": r.choice([None, None, "name"])}
                shape = ["ann", ["cls", b], d]
                if cfg_discr:
                    shape = ["cls", root]
                op = {"k": "codec", "id": len(codecs), "fmt": r.choice(["basic", "basic", "orjson", "msgpack", "yaml"]),
                      "dir": "dec", "shape": shape}
                codecs.append(dict(op))
            if op["shape"][0] == "ann":
                op["inp"] = payload(defined, op["shape"][2], op["shape"][1][1])
            else:
                op["inp"] = payload(defined, cfg_discr, root)
            op["via"] = "codec"
        if dsup and op["k"] == "call" and r.random() < 0.4:
            op["dialect"] = r.choice(["D1", "D2"])
        return op

    batch = profile.get("batch")
    # open finding K19 (one decoder object used by two threads): avoided in 80 % of runs
    avoid_shared_codecs = "shared_codec_threads" in (profile.get("avoid_open") or []) \
        and r.random() < 0.8
    for _ in range(nops):
        if cur < len(chunks) and r.random() < 0.3:
            ops.append({"k": "define", "chunk": cur})
            cur += 1
            defined = fam.defined_after(cur)
        elif batch == "threads" and r.random() < 0.4:
            # several decodes at once (registry refill vs fast path, first dispatches)
            progs = [[decode_event() for _ in range(r.choice([1, 1, 2]))]
                     for _ in range(r.randint(2, 3))]
            if avoid_shared_codecs:
                progs = [[e for e in prog if e["k"] != "codec"] for prog in progs]
                progs = [pg for pg in progs if pg]
                if len(progs) < 2:
                    ops.append(decode_event())
                    continue
            ops.append({"k": "conc", "progs": progs, "sched": gen.gen_schedule(r),
                        "sseed": r.getrandbits(32)})
            for prog in progs:
                ops.append({k: v for k, v in prog[0].items()})
        elif batch == "abort" and r.random() < 0.35:
            ev = decode_event()
            retry = dict(ev)
            if r.random() < 0.5:
                ev["abort_gen"] = r.randint(1, 40)
            else:
                ev["abort_at"] = int(2 ** r.uniform(0, 12))
            ops.append(ev)
            ops.append(retry)
        else:
            ops.append(decode_event())
    while cur < len(chunks):
        ops.append({"k": "define", "chunk": cur})
        cur += 1
        defined = fam.defined_after(cur)
        ops.append(decode_event())
    return {"prop": "C12", "spec": spec, "ops": ops, "opts": {}}


def _intlike(v):
    return isinstance(v, int) and not isinstance(v, bool)


def c12_accepts(fam, cname, doc):
    """model of 'class accepts the input' for the int-only C12 grammar.
    -> expected canon object or an error name"""
    if not isinstance(doc, dict):
        return "error"
    fields = []
    for f in fam.all_fields(cname):
        n_ = f["n"]
        if f.get("literal") is not None:
            if n_ in doc and doc[n_] != f["literal"]:
                return "InvalidFieldValue"
            fields.append([n_, ["str", f["literal"]]])
            continue
        if n_ in doc:
            if not _intlike(doc[n_]):
                return "InvalidFieldValue"
            fields.append([n_, ["int", doc[n_]]])
        elif "d" in f:
            fields.append([n_, ["int", f["d"][1]]])
        else:
            return "MissingField"
    return ["obj", cname, fields]


def c12_model(fam, defined, base, discr, doc):
    """-> ("obj", canon) | ("exc", name) | ("any-exc",)"""
    from . import gen as G
    el = [v for v in G.eligible_variants(fam, base, discr, defined)]
    if discr.get("field"):
        if not isinstance(doc, dict) or discr["field"] not in doc:
            return ("exc", "MissingDiscriminatorError")
        tag = doc[discr["field"]]
        hits = [v for v in el if tag in fam.tag(v, discr)]
        if not hits:
            return ("exc", "SuitableVariantNotFoundError")
        # tags are unique in generated hierarchies; with tagger=list two tags map to one class
        target = hits[-1] if len(set(hits)) > 1 else hits[0]
        if len(set(hits)) > 1:
            return ("skip",)
        d2 = fam.own_cfg(target).get("discriminator")
        if d2 and d2.get("field") != discr.get("field"):
            # the selected class dispatches again on its own field
            return c12_model(fam, defined, target, d2, doc)
        exp = c12_accepts(fam, target, doc)
        if isinstance(exp, str):
            return ("exc", exp)
        return ("obj", exp)
    for v in el:
        exp = c12_accepts(fam, v, doc)
        if not isinstance(exp, str):
            return ("obj", exp)
    return ("exc", "SuitableVariantNotFoundError")


def _unwrap_result(t, v):
    """canon of the decoded element under list/dict/opt wrappers"""
    if t[0] == "list" and v[0] == "list" and v[1]:
        return v[1][0]
    if t[0] == "dict" and v[0] == "dict" and v[1]:
        return v[1][0][1]
    return v


def oracle_c12(ex, idx, op, out):
    v = _oracle_c12_f(ex, idx, op, out)
    if v is not None:
        return v
    return _oracle_c12_g(ex, idx, op, out)


def _oracle_c12_g(ex, idx, op, out):
    """the second discriminated position of a holder, when it was given"""
    from . import universe as U
    fam = ex.fam
    if op.get("via") != "holder" or op["cls"] not in fam.classes:
        return None
    if out["s"] != "ok" and (out["s"] != "exc" or out["e"].get("field_name") != "g"):
        return None
    fields = fam.cls(op["cls"])["fields"]
    if len(fields) < 2 or not isinstance(op["inp"], dict) or "g" not in op["inp"]:
        return None
    ann = fields[1]["t"][1]
    d, base, doc = ann[2], ann[1][1], op["inp"]["g"]
    defined = set(ex.sut.defined)
    if base not in defined:
        return None
    m = c12_model(fam, defined, base, d, doc)
    if out["s"] == "exc":
        if m[0] == "obj":
            names = []
            e = out["e"]
            while "ctx" in e:
                e = e["ctx"]
                names.append(e["type"])
            if "SuitableVariantNotFoundError" in names or "MissingDiscriminatorError" in names:
                return {"class": "registry-model-mismatch", "ref": {"model": list(m)}, "diff_at": "/g",
                        "detail": f"second position: expected {m[1][1]} instance, got {names}"}
        return None
    if m[0] != "obj":
        # the whole decode succeeded although the model expects this position to fail
        if m[0] == "exc":
            return {"class": "registry-model-mismatch", "ref": {"model": list(m)}, "diff_at": "/g",
                    "detail": f"second position: expected {m[1]}, got a value"}
        return None
    got = out["v"]
    got = got[2][1][1] if got[0] == "obj" and len(got[2]) > 1 else got
    if not U.same(got, m[1]):
        return {"class": "registry-model-mismatch", "ref": {"model": list(m)}, "diff_at": "/g",
                "detail": f"second position: expected {m[1][1]} instance per registry model"}
    return None


def _oracle_c12_f(ex, idx, op, out):
    from . import universe as U
    fam = ex.fam
    defined = set(ex.sut.defined)
    via = op.get("via")
    if via == "cfg":
        d = fam.own_cfg(op["cls"]).get("discriminator")
        if not d:
            return None
        base, t, doc, nested = op["cls"], ["cls", op["cls"]], op["inp"], False
    elif via == "holder":
        if op["cls"] not in fam.classes:
            return None
        t = fam.cls(op["cls"])["fields"][0]["t"]
        ann = t if t[0] in ("ann", "cls") else t[1]
        if ann[0] == "ann":
            d, base = ann[2], ann[1][1]
        else:
            base = ann[1]
            d = fam.own_cfg(base).get("discriminator") if base in fam.classes else None
            if not d:
                return None
        doc = op["inp"].get("f") if isinstance(op["inp"], dict) else None
        if t[0] == "list":
            doc = doc[0] if doc else None
        elif t[0] == "dict":
            doc = doc.get("k") if isinstance(doc, dict) else None
        nested = True
    elif via == "codec":
        ann = op["shape"]
        if ann[0] == "ann":
            d, base = ann[2], ann[1][1]
        else:
            base = ann[1]
            d = fam.own_cfg(base).get("discriminator") if base in fam.classes else None
            if not d:
                return None
        t, doc, nested = ann, op["inp"], False
    else:
        return None
    if base not in defined:
        return None
    if via == "holder" and out["s"] == "exc" and out["e"].get("field_name") not in (None, "f"):
        return None  # the other discriminated position of the holder failed first
    m = c12_model(fam, defined, base, d, doc)
    if m[0] == "skip":
        return None
    bad = None
    if m[0] == "obj":
        if out["s"] != "ok":
            bad = f"expected instance of {m[1][1]}, got {out['s']}:{(out.get('e') or {}).get('type')}"
        else:
            got = out["v"]
            if nested:
                got = got[2][0][1] if got[0] == "obj" and got[2] else got
                got = _unwrap_result(t, got)
            if not U.same(got, m[1]):
                bad = f"expected {m[1][1]} instance per registry model, got {got[1] if got[0] == 'obj' else got[0]}"
    else:
        want = m[1]
        if out["s"] != "exc":
            bad = f"expected {want}, got a value"
        else:
            e = out["e"]
            names = [e["type"]]
            while "ctx" in e:
                e = e["ctx"]
                names.append(e["type"])
            if want in ("MissingDiscriminatorError", "SuitableVariantNotFoundError"):
                if want not in names:
                    bad = f"expected {want}, got {names}"
            elif d.get("field") and ("SuitableVariantNotFoundError" in names
                                     or "MissingDiscriminatorError" in names):
                bad = f"expected {want} from the tagged class, got {names}"
    if bad:
        return {"class": "registry-model-mismatch", "ref": {"model": list(m)}, "detail": bad,
                "diff_at": None}
    return None


def exec_c12(case):
    return E.Execution(case["spec"], case["ops"], extra_oracle=oracle_c12)


GENERATORS["C12"] = gen_c12
EXECUTORS["C12"] = exec_c12


# --------------------------------------------------------------------------
# C15 — all entry points agree; creating codecs/subclasses changes nothing
# --------------------------------------------------------------------------

def gen_c15(rng, profile):
    from . import family as F
    kn = gen.gen_knobs(rng, profile)
    kn.update({"threads": profile.get("batch") == "threads", "aborts": False, "codecs": True,
               "sub_in_base": False,
               "cfg_dialect": False})
    if rng.random() < 0.6:
        kn["chunks"] = rng.choice([2, 3])
        kn["inherit"] = True
    if rng.random() < 0.2:
        kn.update({"union_focus": True, "n_leaf": 2, "p_plain": 0.6, "n_outer": 2})
    spec = gen.gen_family(rng, kn)
    fam = F.Fam(spec)
    if rng.random() < 0.5:
        # "creating subclasses never changes what an existing class or codec
        # does": let the last variant of a hierarchy arrive in a chunk of its own
        leaves = [n for n in fam.order if fam.family_bases(n) and not fam.subclasses(n)
                  and fam.tag(n) and not any(n in fam.field_refs(m) for m in fam.order)]
        if leaves:
            late = rng.choice(leaves)
            for ch in spec["chunks"]:
                ch[:] = [c for c in ch if c["name"] != late]
            spec["chunks"] = [ch for ch in spec["chunks"] if ch] + [[fam.cls(late)]]
            fam = F.Fam(spec)
    base_ops = gen.gen_history(rng, spec, kn, n_ops=rng.randint(3, 9))
    ops = []
    cur = 1
    defined = fam.defined_after(cur)

    def agree_event():
        cands = [n for n in fam.order if n in defined and fam.cls(n).get("kind") != "nt"
                 and not fam.cls(n).get("tvars")
                 and not fam.own_cfg(n).get("discriminator")]
        if not cands:
            return None
        cname = rng.choice(cands)
        fmts = ["basic", "basic", "basic"]
        for m, f in (("JSON", "json"), ("ORJSON", "orjson"), ("MsgPack", "msgpack"), ("YAML", "yaml")):
            if m in fam.mixins(cname):
                fmts.append(f)
        if rng.random() < 0.2:
            fmts.append(rng.choice(["json", "orjson", "msgpack", "yaml"]))
        op = {"k": "agree", "cls": cname, "fmt": rng.choice(fmts)}
        try:
            v = gen.gen_value(rng, fam, ["cls", cname], defined, kn=kn)
        except gen.Unbuildable:
            v = None
        if v is not None and not kn.get("subclass_values", True) and gen.has_subclass_instance(
                fam, v, ["cls", cname]):
            v = None
        # an outer class holding cname in a plain required/any field
        outers = []
        for o in fam.order:
            if o not in defined or not fam.is_mixin(o) or fam.cls(o).get("tvars"):
                continue
            for f in fam.all_fields(o):
                if f["t"] == ["cls", cname] and o != cname:
                    outers.append((o, f))
        if v is not None and rng.random() < 0.55:
            op["dir"] = "enc"
            op["val"] = v
            if outers and op["fmt"] == "basic":
                o, f = rng.choice(outers)
                try:
                    ov = gen.gen_value(rng, fam, ["cls", o], defined, kn=kn)
                    if ov[1] == o:
                        ov = ["o", o, [[n_, x] for n_, x in ov[2] if n_ != f["n"]] + [[f["n"], v]]]
                        op["outer_val"] = ov
                        keys = [f["n"]]
                        alias = f.get("alias") or (fam.cfg(o).get("aliases") or {}).get(f["n"])
                        if alias:
                            keys.append(alias)
                        op["outer_keys"] = keys
                except gen.Unbuildable:
                    pass
            return op
        if v is None:
            v = gen.gen_value(rng, fam, ["cls", cname], None, kn=kn)
        doc = gen.to_input(fam, v, {"dialect": None, "tagpick": 0})
        if kn.get("bad_inputs") and rng.random() < 0.15:
            doc, _ = gen.corrupt(rng, doc)
        op["dir"] = "dec"
        op["inp"] = doc
        if outers and op["fmt"] == "basic" and isinstance(doc, dict):
            o, f = rng.choice(outers)
            try:
                ov = gen.gen_value(rng, fam, ["cls", o], defined, kn=kn)
                if ov[1] == o and not fam.own_cfg(o).get("discriminator"):
                    odoc = gen.to_input(fam, ov, {"dialect": None, "tagpick": 0})
                    key = f.get("alias") or (fam.cfg(o).get("aliases") or {}).get(f["n"]) or f["n"]
                    odoc[key] = doc
                    op["outer_cls"] = o
                    op["outer_field"] = f["n"]
                    op["outer_inp"] = odoc
            except gen.Unbuildable:
                pass
        return op

    for op in base_ops:
        ops.append(op)
        if op["k"] == "define":
            cur = op["chunk"] + 1
            defined = fam.defined_after(cur)
        if rng.random() < 0.6:
            a = agree_event()
            if a:
                ops.append(a)
    a = agree_event()
    if a:
        ops.append(a)
    return {"prop": "C15", "spec": spec, "ops": ops, "opts": {"knobs": kn}}


def oracle_c15(ex, idx, op, out):
    if op["k"] != "agree" or out["s"] != "ok":
        return None
    if ex.f3(op):
        # the type still has an unresolved forward reference: mixin methods are
        # postponed, codecs refuse to be built; agreement is about defined types
        return None
    res = ex.last_raw
    if not isinstance(res, dict):
        return None
    oks = {k: v[1] for k, v in res.items() if v[0] == "ok"}
    excs = {k: v[1] for k, v in res.items() if v[0] == "exc"}
    if oks and excs:
        return {"class": "entry-points-disagree:value-vs-exception", "ref": None,
                "detail": {"ok": sorted(oks), "exc": excs}, "diff_at": "/" + sorted(excs)[0]}
    if len(oks) > 1:
        names = sorted(oks)
        first = oks[names[0]]
        for n_ in names[1:]:
            if json_dumps(oks[n_]) != json_dumps(first):
                return {"class": "entry-points-disagree", "ref": None,
                        "detail": {names[0]: first, n_: oks[n_]},
                        "diff_at": f"/{n_}" + (E.first_diff(first, oks[n_]) or "")}
    return None


def json_dumps(x):
    import json
    return json.dumps(x, sort_keys=True)


def exec_c15(case):
    return E.Execution(case["spec"], case["ops"], extra_oracle=oracle_c15)


GENERATORS["C15"] = gen_c15
EXECUTORS["C15"] = exec_c15


# --------------------------------------------------------------------------
# C20 — schema generation: total, well formed, closed, consistent accumulation
# --------------------------------------------------------------------------

def gen_c20(rng, profile):
    from . import family as F
    kn = gen.gen_knobs(rng, profile)
    kn.setdefault("schema_omit", True)
    if rng.random() < 0.5:
        kn["field_ser"] = True
    kn.update({"threads": False, "aborts": False, "codecs": False, "fwd": False, "chunks": 1,
               "lazy": rng.choice(["none", "none", "mixed"])})
    if rng.random() < 0.5:
        kn["cfg_opts"] = True
    spec = gen.gen_family(rng, kn)
    if not kn.get("schema_omit", True):
        for ch in spec["chunks"]:
            for c in ch:
                for k in ("omit_none", "omit_default"):
                    (c.get("cfg") or {}).pop(k, None)
                if (c.get("cfg") or {}).get("dialect"):
                    pass
        for d in spec["dialects"]:
            d.pop("omit_none", None)
            d.pop("omit_default", None)
    fam = F.Fam(spec)
    pool = [n for n in fam.order if fam.cls(n).get("kind") != "nt" and not fam.cls(n).get("tvars")]
    gens = [n for n in fam.order if fam.cls(n).get("tvars")]
    # classes whose build must fail half way: supported nested dataclasses first,
    # an unsupported field last
    bads = []
    for i in range(rng.choice([0, 1, 1, 2])):
        if not pool:
            break
        refs = rng.sample(pool, min(len(pool), rng.randint(1, 2)))
        bn = f"Bad{i}"
        bads.append(bn)
        spec["chunks"][0].append({
            "name": bn, "mixins": [],
            "fields": [{"n": f"b{i}_{j}", "t": rng.choice([["cls", x], ["list", ["cls", x]],
                                                          ["opt", ["cls", x]]])}
                       for j, x in enumerate(refs)] + [{"n": f"b{i}_bad", "t": ["opaque"]}]})
    ctx_calls = []
    for _ in range(rng.randint(0, 4)):
        call = {}
        if rng.random() < 0.5:
            call["dialect"] = rng.choice(["draft", "openapi"])
        if rng.random() < 0.4:
            call["all_refs"] = rng.random() < 0.7
        if rng.random() < 0.25:
            call["ref_prefix"] = rng.choice(["#/components/schemas", "#/defs"])
        ctx_calls.append(call)
    nb = rng.randint(1, 2)
    builders = []
    for b in range(nb):
        params = {"dialect": rng.choice(["draft", "openapi"]),
                  "all_refs": rng.choice([None, True, True, False]),
                  "ref_prefix": rng.choice([None, None, "#/components/schemas", "#/defs/", "x://y/z"])}
        builders.append(params)
    ops = []

    def type_for():
        x = rng.random()
        if bads and x < 0.15:
            return ["cls", rng.choice(bads)]
        if gens and x < 0.3:
            return ["gen", rng.choice(gens), [rng.choice([["int"], ["date"], ["str"]]
                                                       + [["cls", p] for p in pool[:2]])]]
        base = ["cls", rng.choice(pool)] if pool else ["int"]
        y = rng.random()
        if y < 0.7:
            return base
        if y < 0.8:
            return ["list", base]
        if y < 0.9:
            return ["dict", base]
        return ["opt", base]

    for _ in range(rng.randint(3, 12)):
        b = rng.randrange(nb)
        if profile.get("batch") == "threads" and rng.random() < 0.35:
            # builds only: reading the definitions while another thread is still
            # registering them is not something the statement promises
            progs = [[{"k": "schema", "b": b, "params": builders[b], "what": "build",
                       "type": type_for()} for _ in range(rng.choice([1, 1, 2]))]
                     for _ in range(rng.randint(2, 3))]
            ops.append({"k": "conc", "progs": progs, "sched": gen.gen_schedule(rng, 60000),
                        "sseed": rng.getrandbits(32)})
            ops.append({"k": "schema", "b": b, "params": builders[b], "what": "defs", "noref": True})
            continue
        if ctx_calls and rng.random() < 0.3:
            t_ = type_for()
            if not _mentions_bad(t_):
                ops.append({"k": "schema", "what": "build_ctx", "ctx": 0,
                            "call": rng.choice(ctx_calls), "type": t_})
                continue
        if rng.random() < 0.15:
            ops.append({"k": "schema", "b": b, "params": builders[b], "what": "defs", "noref": True})
        else:
            ops.append({"k": "schema", "b": b, "params": builders[b], "what": "build",
                        "type": type_for()})
    return {"prop": "C20", "spec": spec, "ops": ops, "opts": {"knobs": kn}}


def _collect_refs(node, out):
    if isinstance(node, dict):
        for k, v in node.items():
            if k == "$ref" and isinstance(v, str):
                out.append(v)
            else:
                _collect_refs(v, out)
    elif isinstance(node, list):
        for v in node:
            _collect_refs(v, out)


_validator = []


def _check_metaschema(doc):
    if not _validator:
        import os
        import sys
        deps = os.path.join(os.path.dirname(os.path.dirname(os.path.abspath(__file__))), ".deps")
        if deps not in sys.path:
            sys.path.append(deps)
        import jsonschema
        _validator.append(jsonschema.Draft202012Validator)
    V = _validator[0]
    errs = sorted(V(V.META_SCHEMA).iter_errors(doc), key=str)
    return errs[0].message[:200] if errs else None


def oracle_c20(ex, idx, op, out):
    if op["k"] != "schema":
        return None
    if op.get("what") == "build_ctx":
        if out["s"] != "ok":
            return {"class": "schema-build-crash:" + (out.get("e") or {}).get("type", out["s"]),
                    "ref": None, "diff_at": None, "detail": "build_json_schema(context=...) crashed"}
        return None  # compared with the same call on a fresh Context by the engine
    if ex.ops[idx]["k"] == "conc":
        # inside a concurrent batch only the per-call outcome is judged (against
        # the twin); builder-wide invariants are evaluated at the next event
        if out["s"] != "ok":
            return {"class": "schema-build-crash:" + (out.get("e") or {}).get("type", out["s"]),
                    "ref": None, "diff_at": None, "detail": "crash inside a concurrent batch"}
        return None
    st = getattr(ex.sut, "schema_state", None)
    if st is None:
        return None
    if op.get("what") == "defs" and isinstance(st.get("defs_doc"), dict):
        # what get_definitions() serialises is what the builder holds
        for k_, v_ in st["defs_doc"].items():
            if k_ in (st.get("after") or {}) and st["after"][k_] != v_:
                return {"class": "definition-serialisation-differs", "ref": None, "diff_at": "/" + k_,
                        "detail": {"get_definitions": v_, "context": st["after"][k_]}}
    if out["s"] != "ok":
        return {"class": "schema-build-crash:" + (out.get("e") or {}).get("type", out["s"]),
                "ref": None, "diff_at": None,
                "detail": "build_json_schema raised something other than the documented NotImplementedError"}
    after = st.get("after") or {}
    before = st.get("before") or {}
    params = st["params"]
    if st.get("error") and not _mentions_bad(op.get("type")):
        return {"class": "schema-build-crash:NotImplementedError", "ref": None, "diff_at": None,
                "detail": "NotImplementedError for a supported type"}
    # definitions never change once registered
    for k, v in before.items():
        if k not in after:
            return {"class": "definition-lost", "ref": None, "diff_at": "/" + k, "detail": k}
        if after[k] != v:
            return {"class": "definition-changed", "ref": None, "diff_at": "/" + k,
                    "detail": {"before": v, "after": after[k]}}
    docs = [("definition:" + k, v) for k, v in after.items()]
    if "schema" in st:
        docs.append(("schema", st["schema"]))
        if st["roundtrip"] != st["schema"]:
            return {"class": "roundtrip-mismatch", "ref": None,
                    "diff_at": E.first_diff(st["schema"], st["roundtrip"]),
                    "detail": {"schema": st["schema"], "roundtrip": st["roundtrip"]}}
    for label, doc in docs:
        msg = _check_metaschema(doc)
        if msg:
            return {"class": "metaschema-invalid", "ref": None, "diff_at": "/" + label, "detail": msg}
    # closure of references
    prefix = params.get("ref_prefix")
    if prefix is None:
        prefix = "#/components/schemas" if params.get("dialect") == "openapi" else "#/$defs"
    prefix = prefix.rstrip("/")
    refs = []
    for _, doc in docs:
        _collect_refs(doc, refs)
    # every schema this builder ever returned must still resolve
    for doc in (getattr(ex.sut, "schema_log", {}) or {}).get(st.get("key"), []):
        _collect_refs(doc, refs)
    for r_ in refs:
        if not r_.startswith(prefix + "/"):
            return {"class": "ref-prefix", "ref": None, "diff_at": None,
                    "detail": {"ref": r_, "prefix": prefix}}
        if r_[len(prefix) + 1:] not in after:
            return {"class": "dangling-ref", "ref": None, "diff_at": None,
                    "detail": {"ref": r_, "definitions": sorted(after)}}
    # each definition equals what a fresh builder registers for that class alone
    mod = ex.sut.mod
    for k in sorted(set(after) - set(before)):
        cls = getattr(mod, k, None)
        if cls is None:
            continue
        if getattr(cls, "__parameters__", None):
            continue  # which specialisation a generic's name denotes is the K8 question below
        fresh = E.make_schema_builder(dict(params, all_refs=True))
        try:
            fresh.build(cls)
        except Exception:
            continue
        want = fresh.context.definitions.get(k)
        if want is not None and want.to_dict() != after[k]:
            return {"class": "definition-inconsistent", "ref": None, "diff_at": "/" + k,
                    "detail": {"registered": after[k], "fresh": want.to_dict()}}
    return None


def _mentions_bad(t):
    import json
    return t is not None and '"Bad' in json.dumps(t)


_warm = []


def warm_up_schema_models():
    """mashumaro's own JSONSchema model classes are lazily compiled dataclasses:
    process-global state that would make the first run in a process differ from
    the next.  Compile them all up front (untraced) so a run is a pure function
    of its seed."""
    if _warm:
        return
    _warm.append(1)
    try:
        _warm_up()
    except Exception:
        pass  # best effort; the determinism self-test reports what is left


def _warm_up():
    import dataclasses
    from mashumaro.core.meta.helpers import iter_all_subclasses
    from mashumaro.jsonschema import models
    from mashumaro.jsonschema.builder import JSONSchemaBuilder, JSONSchemaDefinitions
    for cls in [models.JSONSchema, *iter_all_subclasses(models.JSONSchema)]:
        try:
            cls().to_dict()
            cls.from_dict({})
        except Exception:
            pass

    @dataclasses.dataclass
    class _W:
        a: int = 1
        b: typing.Optional[typing.List[str]] = None

    for all_refs in (True, False):
        b = JSONSchemaBuilder(all_refs=all_refs)
        s = b.build(_W).to_dict()
        models.JSONSchema.from_dict(s).to_dict()
        b.get_definitions().to_dict()


def exec_c20(case):
    warm_up_schema_models()
    return E.Execution(case["spec"], case["ops"], extra_oracle=oracle_c20,
                       step_budget=2_000_000, depth_budget=300)


GENERATORS["C20"] = gen_c20
EXECUTORS["C20"] = exec_c20
