"""Deterministic simulation harness for Fatal1ty/mashumaro (see /verif/DESIGN.md)."""
