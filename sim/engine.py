"""Execute an operation history against a live family under the simulator and
compare every operation with its history-free reference."""
from __future__ import annotations

import copy
import json
import random
import sys

from . import family as F
from . import trace as T
from . import universe as U

STEP_BUDGET = 400_000
DEPTH_BUDGET = 400


def _codec_classes(fmt):
    if fmt == "basic":
        from mashumaro.codecs import basic as m
        return m.BasicEncoder, m.BasicDecoder, m.encode, m.decode
    if fmt == "json":
        from mashumaro.codecs import json as m
        return m.JSONEncoder, m.JSONDecoder, m.json_encode, m.json_decode
    if fmt == "orjson":
        from mashumaro.codecs import orjson as m
        return m.ORJSONEncoder, m.ORJSONDecoder, m.json_encode, m.json_decode
    if fmt == "yaml":
        from mashumaro.codecs import yaml as m
        return m.YAMLEncoder, m.YAMLDecoder, m.yaml_encode, m.yaml_decode
    if fmt == "msgpack":
        from mashumaro.codecs import msgpack as m
        return m.MessagePackEncoder, m.MessagePackDecoder, m.msgpack_encode, m.msgpack_decode
    if fmt == "toml":
        from mashumaro.codecs import toml as m
        return m.TOMLEncoder, m.TOMLDecoder, m.toml_encode, m.toml_decode
    raise ValueError(fmt)


def prepare(uni, op):
    """Build the thunk for a call/codec op (untraced part: argument
    construction).  Returns (thunk, check_unchanged)."""
    mod = uni.mod
    k = op["k"]
    if k == "call":
        cls = getattr(mod, op["cls"])
        kw = dict(op.get("kw") or {})
        if op.get("dialect"):
            kw["dialect"] = getattr(mod, op["dialect"])
        m = op["m"]
        if "val" in op:
            obj = uni.value(op["val"])
            before = U.canon(obj)
            return (lambda: getattr(obj, m)(**kw)), (lambda: U.same(U.canon(obj), before))
        data = U.encode_input(m, op["inp"])
        before = copy.deepcopy(data)
        return (lambda: getattr(cls, m)(data, **kw)), (lambda: data == before)
    if k == "codec":
        enc_cls, dec_cls, enc_fn, dec_fn = _codec_classes(op["fmt"])
        shape = uni.typ(op["shape"])
        dd = getattr(mod, op["dd"]) if op.get("dd") else None
        cid = op.get("id")
        if op["dir"] == "enc":
            obj = uni.value(op["val"])
            before = U.canon(obj)
            unchanged = lambda: U.same(U.canon(obj), before)  # noqa
            if op.get("oneshot"):
                return (lambda: enc_fn(obj, shape)), unchanged

            def thunk():
                c = uni.codecs.get(cid)
                if c is None:
                    c = enc_cls(shape, default_dialect=dd)
                    uni.codecs[cid] = c
                return c.encode(obj)
            return thunk, unchanged
        data = U.encode_input("decode_" + op["fmt"], op["inp"])
        before = copy.deepcopy(data)
        unchanged = lambda: data == before  # noqa
        if op.get("oneshot"):
            return (lambda: dec_fn(data, shape)), unchanged

        def thunk():
            c = uni.codecs.get(cid)
            if c is None:
                c = dec_cls(shape, default_dialect=dd)
                uni.codecs[cid] = c
            return c.decode(data)
        return thunk, unchanged
    if k == "codec_cmp":
        return prepare_codec_cmp(uni, op)
    if k == "agree":
        return prepare_agree(uni, op)
    if k == "schema":
        return prepare_schema(uni, op)
    raise ValueError(k)


def norm_doc(x, strip_none=False):
    import datetime
    if isinstance(x, (datetime.date, datetime.time)):
        return x.isoformat()
    if isinstance(x, dict):
        return {str(k): norm_doc(v, strip_none) for k, v in x.items()
                if not (strip_none and v is None)}
    if isinstance(x, (list, tuple)):
        return [norm_doc(v, strip_none) for v in x]
    if isinstance(x, (bytes, bytearray)):
        return bytes(x).hex()
    return x


def parse_encoded(fmt, data):
    if fmt == "basic":
        return data
    if fmt in ("json", "orjson"):
        import json as _json
        return _json.loads(data)
    if fmt == "msgpack":
        import msgpack
        return msgpack.unpackb(data, raw=False)
    if fmt == "yaml":
        import yaml
        return yaml.safe_load(data)
    if fmt == "toml":
        import tomllib
        return tomllib.loads(data)
    raise ValueError(fmt)


def prepare_codec_cmp(uni, op):
    """C13 clause 2: the same default_dialect means the same logical document in
    every format.  Returns both sides; the comparison is done by the oracle."""
    from mashumaro.codecs import basic as B
    mod = uni.mod
    fmt = op["fmt"]
    enc_cls, dec_cls, _, _ = _codec_classes(fmt)
    shape = uni.typ(op["shape"])
    dd = getattr(mod, op["dd"]) if op.get("dd") else None

    def side(fn):
        try:
            return ["ok", fn()]
        except Exception as e:  # noqa
            return ["exc", type(e).__name__]

    if op["dir"] == "enc":
        obj = uni.value(op["val"])
        before = U.canon(obj)

        def thunk():
            a = side(lambda: norm_doc(B.BasicEncoder(shape, default_dialect=dd).encode(obj),
                                      strip_none=(fmt == "toml")))
            b = side(lambda: norm_doc(parse_encoded(
                fmt, enc_cls(shape, default_dialect=dd).encode(obj))))
            return {"basic": a, "fmt": b}
        return thunk, (lambda: U.same(U.canon(obj), before))
    data = U.encode_input("decode_" + fmt, op["inp"])
    doc = U.encode_input("decode_basic", op["inp"])

    def thunk():
        a = side(lambda: U.canon(B.BasicDecoder(shape, default_dialect=dd).decode(doc)))
        b = side(lambda: U.canon(dec_cls(shape, default_dialect=dd).decode(data)))
        return {"basic": a, "fmt": b}
    return thunk, (lambda: True)


def exec_single(uni, op, tr):
    thunk, unchanged = prepare(uni, op)
    uni.take_trace()
    status, payload = T.run_traced(thunk, tr)
    uni.last_raw = payload if status == "ok" else None
    hooks = uni.take_trace()
    ok = True
    try:
        ok = unchanged()
    except Exception:
        ok = False
    return U.outcome_of(status, payload, hooks, ok)


def op_core(op):
    return {k: v for k, v in op.items() if k not in ("abort_at", "abort_gen", "bad", "note", "via")}


def classify(got, ref):
    if got["s"] == "budget":
        return "budget:" + got.get("why", "")
    if got["s"] == "ok" and ref["s"] == "ok":
        if not U.same(got["v"], ref["v"]):
            return "value-mismatch"
        if not U.same(got["hooks"], ref["hooks"]):
            return "hook-trace-mismatch"
        return "input-mutation-mismatch"
    if got["s"] == "exc" and ref["s"] == "ok":
        return "exception-instead-of-value:" + got["e"]["type"]
    if got["s"] == "ok" and ref["s"] == "exc":
        return "value-instead-of-exception:" + ref["e"]["type"]
    if got["s"] == "exc" and ref["s"] == "exc":
        if got["e"]["type"] != ref["e"]["type"]:
            return f"exception-mismatch:{got['e']['type']}-vs-{ref['e']['type']}"
        if not U.same(got["e"], ref["e"]):
            return "exception-detail-mismatch:" + got["e"]["type"]
        return "hook-trace-mismatch"
    return f"outcome-mismatch:{got['s']}-vs-{ref['s']}"


def first_diff(a, b, path=""):
    """path of the first differing position between two canon structures"""
    if type(a) is not type(b):
        return path or "/"
    if isinstance(a, dict):
        for k in sorted(set(a) | set(b)):
            if k not in a or k not in b:
                return f"{path}/{k}"
            d = first_diff(a[k], b[k], f"{path}/{k}")
            if d:
                return d
        return None
    if isinstance(a, list):
        if len(a) != len(b):
            return f"{path}/len"
        for i, (x, y) in enumerate(zip(a, b)):
            d = first_diff(x, y, f"{path}/{i}")
            if d:
                return d
        return None
    return None if a == b else (path or "/")


class Execution:
    """One run of (spec, ops).  Stops at the first violation."""

    def __init__(self, spec, ops, twin_dialect_for=None, extra_oracle=None,
                 ref_mode="twin", step_budget=STEP_BUDGET, depth_budget=DEPTH_BUDGET):
        self.spec = spec
        self.ops = ops
        self.fam = F.Fam(spec)
        self.violation = None
        self.stats = {"ops": 0, "steps": 0, "gen_steps": 0, "switches": 0, "conc": 0,
                      "aborts_fired": 0, "aborts_missed": 0, "f2": 0, "f3": 0,
                      "refs": 0, "ok": 0, "exc": 0, "max_depth": 0,
                      "preempt_in_compile": 0, "concurrent_compile": 0,
                      "abort_sites": {}, "defines": 0}
        self.digest = 0
        self.ref_cache = {}
        self.extra_oracle = extra_oracle
        self.twin_dialect_for = twin_dialect_for
        self.step_budget = step_budget
        self.depth_budget = depth_budget
        self.switch_logs = {}
        self.sut = None
        self.outcomes = []
        self.op_steps = {}
        self.op_gen_steps = {}
        self.op_gsteps = {}
        self.out_digest = 0
        self.ready = False if spec.get("flaky") else True
        self.single_fired = {}
        self.keep_outcomes = False
        self.full_outcomes = []
        # an op issued while a forward reference is unresolved is compared with
        # the same op alone on a fresh eager family holding the same classes
        self.strict_f3 = True

    # -- reference -------------------------------------------------------
    def reference(self, nchunks, op):
        core = op_core(op)
        td = self.twin_dialect_for(core) if self.twin_dialect_for else None
        key = json.dumps([nchunks, core, td, self.ready], sort_keys=True)
        if key in self.ref_cache:
            return self.ref_cache[key]
        if td:
            core = dict(core)
            core.pop("dialect", None)
            self.stats["twin_refs"] = self.stats.get("twin_refs", 0) + 1
        uni = U.Universe(self.spec, "ref", upto_chunks=nchunks, twin_dialect=td,
                         ready=self.ready)
        try:
            tr = T.OpTrace(budget_steps=self.step_budget, budget_depth=self.depth_budget)
            out = exec_single(uni, core, tr)
        finally:
            uni.dispose()
        self.stats["refs"] += 1
        self.ref_cache[key] = out
        return out

    # -- checking --------------------------------------------------------------
    def check(self, idx, op, out, faulted, sub=None):
        self.stats["ops"] += 1
        self.stats[out["s"] if out["s"] in ("ok", "exc") else "exc"] += 1
        if op.get("bad"):
            self.stats["f2"] += 1
        self.outcomes.append([idx, sub, out["s"], out.get("e", {}).get("type")])
        self.digest = (self.digest * 1000003 + hash_json(out)) % T.M61
        self.out_digest = (self.out_digest * 1000003 + hash_json(out)) % T.M61
        if self.keep_outcomes:
            self.full_outcomes.append([idx, sub, out])
        if out["s"] == "budget":
            self.violation = {"class": "budget:" + out.get("why", ""), "op_index": idx,
                              "sub": sub, "op": op, "got": out, "ref": None,
                              "faulted": faulted}
            return False
        if faulted:
            return True
        ref = out if op.get("noref") else self.reference(self.sut.nchunks, op)
        if not U.same(out, ref):
            self.violation = {"class": classify(out, ref), "op_index": idx, "sub": sub,
                              "op": op, "got": out, "ref": ref,
                              "diff_at": first_diff(out, ref), "faulted": False}
            return False
        if self.extra_oracle:
            self.last_raw = getattr(self.sut, "last_raw", None)
            v = self.extra_oracle(self, idx, op, out)
            if v:
                v.update({"op_index": idx, "sub": sub, "op": op, "got": out})
                self.violation = v
                return False
        return True

    def f3(self, op):
        """is the op issued while one of its forward references is undefined?"""
        if self.sut.nchunks >= len(self.spec["chunks"]):
            return False
        defined = self.sut.defined
        if op["k"] in ("call", "agree"):
            names = [op["cls"]]
        elif "shape" in op:
            names = list(self.fam.type_refs(op["shape"]))
        else:
            names = []
        for n in names:
            if self.fam.unresolved(n, defined):
                return True
        # values may carry instances of subclasses defined in the history
        return False

    # -- running ---------------------------------------------------------------
    def run(self):
        U.patch_uuid()
        try:
            self.sut = U.Universe(self.spec, "sut")
            for idx, op in enumerate(self.ops):
                k = op["k"]
                if k == "define":
                    self.sut.define(op["chunk"])
                    self.stats["defines"] += 1
                    continue
                if k == "heal":
                    # the state user callbacks depend on becomes available
                    self.ready = True
                    if hasattr(self.sut.mod, "_READY"):
                        self.sut.mod._READY[0] = True
                    self.stats["heals"] = self.stats.get("heals", 0) + 1
                    continue
                if k == "conc":
                    if not self.run_conc(idx, op):
                        break
                    continue
                tr = T.OpTrace(budget_steps=self.step_budget, budget_depth=self.depth_budget,
                               abort_at=op.get("abort_at"), abort_at_gen=op.get("abort_gen"))
                out = exec_single(self.sut, op, tr)
                self.account(tr)
                self.op_steps[idx] = tr.steps
                faulted = False
                self.op_gen_steps[idx] = tr.gen_steps
                self.op_gsteps[idx] = list(tr.gsteps)
                if op.get("abort_at") or op.get("abort_gen"):
                    if tr.abort_site is not None:
                        faulted = True
                        self.stats["aborts_fired"] += 1
                        site = f"{tr.abort_site[0]}:{tr.abort_site[1]}"
                        self.stats["abort_sites"][site] = self.stats["abort_sites"].get(site, 0) + 1
                        self.last_abort_site = tr.abort_site
                    else:
                        self.stats["aborts_missed"] += 1
                if self.f3(op):
                    self.stats["f3"] += 1
                    if not self.strict_f3:
                        faulted = True
                if not self.check(idx, op, out, faulted):
                    break
        finally:
            U.unpatch_uuid()
            if self.sut is not None:
                self.sut.dispose()
        return self

    def account(self, tr):
        self.stats["steps"] += tr.steps
        self.stats["gen_steps"] += tr.gen_steps
        self.stats["max_depth"] = max(self.stats["max_depth"], tr.max_depth)
        self.digest = (self.digest * 1000003 + tr.digest) % T.M61

    def run_conc(self, idx, op):
        sd = op["sched"]
        rng = random.Random(op.get("sseed", 0))
        schedule = T.Schedule(sd, rng)
        sched = T.Sched(schedule, budget_steps=self.step_budget * 2,
                        budget_depth=self.depth_budget)
        sut = self.sut
        traces = {}

        def make_prog(tid, prog):
            def body(make_trace):
                outs = []
                for o in prog:
                    tr = make_trace()
                    traces.setdefault(tid, []).append(tr)
                    outs.append(exec_single(sut, o, tr))
                return outs
            return body

        programs = {tid: make_prog(tid, prog) for tid, prog in enumerate(op["progs"])}
        results = sched.run(programs)
        for tid, prog in enumerate(op["progs"]):
            if tid not in results:
                # the thread never came back (deadlock inside the code under test)
                results[tid] = [{"s": "budget", "why": "deadlock", "hooks": []} for _ in prog]
        self.stats["lock_waits"] = self.stats.get("lock_waits", 0) + sched.probes.get("lock_waits", 0)
        self.stats["conc"] += 1
        self.stats["switches"] += sched.switches
        self.single_fired[idx] = getattr(schedule, "fired", None)
        self.stats["preempt_in_compile"] += sched.probes.get("preempt_in_compile", 0)
        self.stats["concurrent_compile"] += sched.probes.get("concurrent_compile", 0)
        self.switch_logs[idx] = sched.switch_log
        for tid in sorted(traces):
            for tr in traces[tid]:
                self.account(tr)
        self.digest = (self.digest * 1000003 + hash_json(sched.switch_log)) % T.M61
        f3s = [[self.f3(o) for o in prog] for prog in op["progs"]]
        for tid, prog in enumerate(op["progs"]):
            for j, o in enumerate(prog):
                if f3s[tid][j]:
                    self.stats["f3"] += 1
                if not self.check(idx, o, results[tid][j], f3s[tid][j] and not self.strict_f3,
                                  sub=[tid, j]):
                    return False
        return True


def hash_json(x):
    import zlib
    return zlib.crc32(json.dumps(x, sort_keys=True).encode())


# --------------------------------------------------------------------------
# C15: all entry points for one (type, value)
# --------------------------------------------------------------------------

def _persistent(uni, key, factory):
    c = uni.codecs.get(key)
    if c is None:
        c = factory()
        uni.codecs[key] = c
    return c


def prepare_agree(uni, op):
    import typing
    mod = uni.mod
    fmt = op.get("fmt", "basic")
    enc_cls, dec_cls, enc_fn, dec_fn = _codec_classes(fmt)
    D = getattr(mod, op["cls"])
    cname = op["cls"]
    is_mixin = uni.fam.is_mixin(cname)
    shapes = {
        "list": typing.List[D],
        "dict": typing.Dict[str, D],
        "opt": typing.Optional[D],
        "tuple": typing.Tuple[D, int],
    }
    meth = {"basic": ("to_dict", "from_dict"), "json": ("to_json", "from_json"),
            "orjson": ("to_jsonb", "from_json"), "msgpack": ("to_msgpack", "from_msgpack"),
            "yaml": ("to_yaml", "from_yaml")}[fmt]
    mixin_for_fmt = {"basic": None, "json": "JSON", "orjson": "ORJSON", "msgpack": "MsgPack",
                     "yaml": "YAML"}[fmt]
    has_method = is_mixin and (mixin_for_fmt is None or mixin_for_fmt in uni.fam.mixins(cname))

    def side(fn):
        try:
            return ["ok", fn()]
        except Exception as e:  # noqa
            return ["exc", type(e).__name__]

    if op["dir"] == "enc":
        obj = uni.value(op["val"])
        before = U.canon(obj)
        outer = uni.value(op["outer_val"]) if op.get("outer_val") else None

        def post(x):
            return norm_doc(parse_encoded(fmt, x))

        def thunk():
            res = {}
            if has_method:
                res["mixin"] = side(lambda: post(getattr(obj, meth[0])()))
            res["encoder"] = side(lambda: post(_persistent(
                uni, f"enc:{fmt}:{cname}", lambda: enc_cls(D)).encode(obj)))
            res["oneshot"] = side(lambda: post(enc_fn(obj, D)))
            res["list"] = side(lambda: post(_persistent(
                uni, f"enc:{fmt}:list:{cname}", lambda: enc_cls(shapes["list"])).encode([obj]))[0])
            res["dict"] = side(lambda: post(_persistent(
                uni, f"enc:{fmt}:dict:{cname}", lambda: enc_cls(shapes["dict"])).encode({"k": obj}))["k"])
            if fmt != "yaml":
                res["opt"] = side(lambda: post(_persistent(
                    uni, f"enc:{fmt}:opt:{cname}", lambda: enc_cls(shapes["opt"])).encode(obj)))
                res["tuple"] = side(lambda: post(_persistent(
                    uni, f"enc:{fmt}:tuple:{cname}", lambda: enc_cls(shapes["tuple"])).encode((obj, 1)))[0])
            if outer is not None and fmt == "basic":
                def via_outer():
                    d = outer.to_dict()
                    for k in op["outer_keys"]:
                        if k in d:
                            return norm_doc(d[k])
                    raise KeyError(op["outer_keys"][0])
                r_outer = side(via_outer)
                if r_outer[0] == "ok":
                    # a failing outer class cannot be attributed to this field
                    res["outer"] = r_outer
            return res
        return thunk, (lambda: U.same(U.canon(obj), before))
    doc = op["inp"]

    def enc_doc(x):
        return U.encode_input("decode_" + fmt, x)

    def thunk():
        res = {}
        if has_method:
            res["mixin"] = side(lambda: U.canon(getattr(D, meth[1])(enc_doc(doc))))
        res["decoder"] = side(lambda: U.canon(_persistent(
            uni, f"dec:{fmt}:{cname}", lambda: dec_cls(D)).decode(enc_doc(doc))))
        res["oneshot"] = side(lambda: U.canon(dec_fn(enc_doc(doc), D)))
        res["list"] = side(lambda: U.canon(_persistent(
            uni, f"dec:{fmt}:list:{cname}", lambda: dec_cls(shapes["list"])).decode(enc_doc([doc]))[0]))
        res["dict"] = side(lambda: U.canon(_persistent(
            uni, f"dec:{fmt}:dict:{cname}", lambda: dec_cls(shapes["dict"])).decode(enc_doc({"k": doc}))["k"]))
        res["tuple"] = side(lambda: U.canon(_persistent(
            uni, f"dec:{fmt}:tuple:{cname}", lambda: dec_cls(shapes["tuple"])).decode(enc_doc([doc, 1]))[0]))
        if (op.get("outer_inp") is not None and fmt == "basic"
                and op["outer_cls"] in uni.fam.classes
                and any(f["n"] == op["outer_field"] for f in uni.fam.all_fields(op["outer_cls"]))
                and hasattr(mod, op["outer_cls"])):
            O = getattr(mod, op["outer_cls"])
            try:
                res["outer"] = ["ok", U.canon(getattr(
                    O.from_dict(U.encode_input("from_dict", op["outer_inp"])), op["outer_field"]))]
            except Exception as e:  # noqa
                # only a failure of *this* field says something about this type
                if getattr(e, "field_name", None) == op["outer_field"]:
                    res["outer"] = ["exc", type(e).__name__]
        return res
    return thunk, (lambda: True)



# --------------------------------------------------------------------------
# C20: JSON Schema builders
# --------------------------------------------------------------------------

def make_schema_builder(params):
    from mashumaro.jsonschema import JSONSchemaBuilder
    from mashumaro.jsonschema.dialects import DRAFT_2020_12, OPEN_API_3_1
    kw = {"dialect": OPEN_API_3_1 if params.get("dialect") == "openapi" else DRAFT_2020_12}
    if params.get("all_refs") is not None:
        kw["all_refs"] = params["all_refs"]
    if params.get("ref_prefix") is not None:
        kw["ref_prefix"] = params["ref_prefix"]
    return JSONSchemaBuilder(**kw)


def prepare_schema_ctx(uni, op):
    """build_json_schema(T, context=<one bare Context shared by the run>, **call)"""
    from mashumaro.jsonschema import build_json_schema
    from mashumaro.jsonschema.dialects import DRAFT_2020_12, OPEN_API_3_1
    from mashumaro.jsonschema.models import Context, JSONSchema
    key = f"ctx:{op['ctx']}"
    ctx = uni.codecs.get(key)
    if ctx is None:
        ctx = Context()
        uni.codecs[key] = ctx
    call = dict(op["call"])
    if "dialect" in call:
        call["dialect"] = OPEN_API_3_1 if call["dialect"] == "openapi" else DRAFT_2020_12

    def thunk():
        T_ = uni.typ(op["type"])
        try:
            s = build_json_schema(T_, context=ctx, with_definitions=False, **call)
        except NotImplementedError:
            return {"error": "NotImplementedError"}
        sd = s.to_dict()
        return {"schema": sd, "roundtrip_equal": JSONSchema.from_dict(sd).to_dict() == sd}
    return thunk, (lambda: True)


def prepare_schema(uni, op):
    from mashumaro.jsonschema.models import JSONSchema
    if op["what"] == "build_ctx":
        return prepare_schema_ctx(uni, op)
    key = f"builder:{op['b']}"

    def snapshot(builder):
        items = list(builder.context.definitions.items())  # atomic w.r.t. the scheduler
        return {k: v.to_dict() for k, v in items}

    # the builder is created here, in the untraced part: creating it is not the
    # operation under test and must not race between simulated threads
    b = uni.codecs.get(key)
    if b is None:
        b = make_schema_builder(op["params"])
        uni.codecs[key] = b

    def thunk():
        state = {"builder": b, "before": snapshot(b), "params": op["params"], "key": key}
        uni.schema_state = state
        if op["what"] == "defs":
            d = b.get_definitions().to_dict()
            state["after"] = snapshot(b)
            state["defs_doc"] = d
            return {"definitions": sorted(d) if isinstance(d, dict) else d}
        T_ = uni.typ(op["type"])
        try:
            s = b.build(T_)
        except NotImplementedError:
            state["after"] = snapshot(b)
            state["error"] = "NotImplementedError"
            return {"error": "NotImplementedError"}
        finally:
            state["after"] = snapshot(b)
        sd = s.to_dict()
        state["schema"] = sd
        uni.__dict__.setdefault("schema_log", {}).setdefault(key, []).append(sd)
        rt = JSONSchema.from_dict(sd).to_dict()
        state["roundtrip"] = rt
        return {"schema": sd, "roundtrip_equal": rt == sd}
    return thunk, (lambda: True)
